"""C05 — archive-family parsers are total on arbitrary bytes (definite-pattern finder).

Posture: this rule set *finds definite panic / overflow / unbounded-allocation / non-progress patterns
on input-derived values* in everything reachable from the parser and serializer entry points.  It
is not a proof of panic freedom: sites whose operands are internal counters are counted as
"not decided" and listed in the evidence, never flagged and never claimed safe."""
import re
from mir import fmt, walk, strip_refs, callee_names, norm, call_target
from flow import guards, dom_guards, control_deps, cond_truth
from binser import for_loops, enclosing_loops, rpo_index
from common import Report

EXPLANATION = ("Reachability from the 8 parser and 5 serializer entry points over the resolved call graph; every "
               "Assert terminator, explicit panic, unwrap/expect, input-sized allocation and raw index of the input "
               "is classified by interval + provenance analysis of its operands (input-derived values come from "
               "stream reads of the untrusted buffer); loops are checked for progress.")
ASSUMPTIONS = ["std, byteorder, encoding_rs, indexmap internals do not panic on the calls made (summarised)",
               "internal counters (lengths of in-memory collections, loop indices) do not overflow usize",
               "sites classified 'not decided' are listed, not proven safe"]

PARSERS = ["mila::bin_archive::BinArchive::from_bytes", "mila::text_archive::TextArchive::from_bytes",
           "mila::text_archive::TextArchive::from_archive", "mila::arc::from_bytes", "mila::fe9_arc::parse",
           "mila::aset::ASetFile::from_archive", "mila::asset_binary::AssetBinary::from_archive",
           "mila::asset_binary::AssetSpec::from_stream"]
SERIALIZERS = ["mila::bin_archive::BinArchive::serialize", "mila::text_archive::TextArchive::serialize",
               "mila::fe9_arc::serialize", "mila::aset::ASetFile::serialize", "mila::asset_binary::AssetBinary::serialize"]

BITS = {"u8": 8, "u16": 16, "u32": 32, "u64": 64, "usize": 64, "i8": 8, "i16": 16, "i32": 32, "i64": 64, "isize": 64, "u128": 128, "i128": 128}
READ_RE = re.compile(r"(::read_(u8|u16|u32|u64|i8|i16|i32|i64|f32)(::<.*>)?$)|(ReadBytesExt::read_)|(BinRead)")


def ty_range(ty):
    b = BITS.get(ty)
    if b is None:
        return None
    if ty.startswith("u"):
        return (0, (1 << b) - 1)
    return (-(1 << (b - 1)), (1 << (b - 1)) - 1)


class Prov:
    """interval + provenance of an integer term (flow-insensitive, with guard refinement by callers)."""
    def __init__(self, body):
        self.body = body
        self.memo = {}
        self.var_stack = set()

    def of(self, t, ty=None, depth=0):
        """returns (lo, hi, tags) ; tags subset of {'input','param','len','const','counter','opaque'}"""
        if depth > 40:
            r = ty_range(ty) or (0, (1 << 64) - 1)
            return (r[0], r[1], {"opaque"})
        tag = t[0]
        if tag == "const":
            if isinstance(t[1], bool):
                return (int(t[1]), int(t[1]), {"const"})
            if isinstance(t[1], int):
                return (t[1], t[1], {"const"})
            r = ty_range(t[2]) or (0, (1 << 64) - 1)
            return (r[0], r[1], {"opaque"})
        if tag in ("ref", "deref"):
            return self.of(t[1], ty, depth + 1)
        if tag == "cast":
            lo, hi, tags = self.of(t[1], t[3], depth + 1)
            r = ty_range(t[2])
            if r is None:
                return (lo, hi, tags)
            if lo >= r[0] and hi <= r[1]:
                return (lo, hi, tags)
            return (r[0], r[1], tags)  # truncation / reinterpretation keeps provenance
        if tag == "param":
            r = ty_range(self.body.local_ty(t[1])) or (0, (1 << 64) - 1)
            return (r[0], r[1], {"param"})
        if tag == "field" and t[1][0] == "bin" and t[1][1].endswith("WithOverflow") and t[3] == 0:
            return self.of(("bin", t[1][1].replace("WithOverflow", ""), t[1][2], t[1][3], t[1][4] if len(t[1]) > 4 else None), ty, depth + 1)
        if tag == "bin":
            op = t[1].replace("WithOverflow", "").replace("Unchecked", "")
            aty = t[4] if len(t) > 4 else ty
            a = self.of(t[2], aty, depth + 1)
            b = self.of(t[3], aty, depth + 1)
            tags = (a[2] | b[2]) - {"const"} or {"const"}
            r = ty_range(aty) or (0, (1 << 64) - 1)
            if op == "Add":
                lo, hi = a[0] + b[0], a[1] + b[1]
            elif op == "Sub":
                lo, hi = a[0] - b[1], a[1] - b[0]
            elif op == "Mul":
                c = [a[0] * b[0], a[0] * b[1], a[1] * b[0], a[1] * b[1]]
                lo, hi = min(c), max(c)
            elif op == "BitAnd":
                if b[0] == b[1] and b[0] >= 0:
                    lo, hi = 0, b[0]
                elif a[0] == a[1] and a[0] >= 0:
                    lo, hi = 0, a[0]
                else:
                    lo, hi = 0, max(a[1], b[1])
            elif op == "Shr":
                if b[0] == b[1] and a[0] >= 0:
                    lo, hi = a[0] >> b[0], a[1] >> b[0]
                else:
                    lo, hi = (0, a[1]) if a[0] >= 0 else r
            elif op == "Shl":
                if b[0] == b[1] and a[0] >= 0 and b[0] < 128:
                    lo, hi = a[0] << b[0], a[1] << b[0]
                else:
                    lo, hi = r
            elif op in ("Div",):
                if b[0] > 0 and a[0] >= 0:
                    lo, hi = a[0] // b[1], a[1] // b[0]
                else:
                    lo, hi = r
            elif op == "Rem":
                if b[0] > 0:
                    lo, hi = 0, b[1] - 1
                else:
                    lo, hi = r
            elif op in ("BitOr", "BitXor"):
                m = max(a[1], b[1], 0)
                lo, hi = 0, (1 << m.bit_length()) - 1
            elif op in ("Eq", "Ne", "Lt", "Le", "Gt", "Ge"):
                return (0, 1, tags)
            else:
                lo, hi = r
            return (lo, hi, tags)
        if tag == "call":
            nm = t[1]
            sh = nm.rsplit("::", 1)[-1]
            m = re.search(r"(?:read|decode)_(u8|u16|u32|u64|i8|i16|i32|i64)", sh)
            if m:
                r = ty_range(m.group(1))
                return (r[0], r[1], {"input"})
            if sh in ("len", "count", "position", "tell", "size", "capacity"):
                return (0, (1 << 63) - 1, {"len"})
            if sh in ("min",) and len(t[2]) == 2:
                a = self.of(t[2][0], ty, depth + 1)
                b = self.of(t[2][1], ty, depth + 1)
                return (min(a[0], b[0]), min(a[1], b[1]), (a[2] | b[2]))
            if sh in ("max",) and len(t[2]) == 2:
                a = self.of(t[2][0], ty, depth + 1)
                b = self.of(t[2][1], ty, depth + 1)
                return (max(a[0], b[0]), max(a[1], b[1]), (a[2] | b[2]))
            if sh == "count_ones":
                return (0, 64, {"const"})
            if sh in ("from", "into") and t[2]:
                # a lossless widening: the value keeps the range of its source type
                mm = re.search(r"From<(u8|u16|u32|u64|usize|i8|i16|i32|i64)> for (\w+)>", nm)
                src_ty = mm.group(1) if mm else ty
                lo, hi, tags = self.of(t[2][0], src_ty, depth + 1)
                r = ty_range(src_ty)
                if r and (lo < r[0] or hi > r[1]):
                    lo, hi = max(lo, r[0]), min(hi, r[1])
                return (lo, hi, tags)
            if sh in ("try_from", "try_into") and len(t[2]) == 1:
                # a checked conversion: on its success arm the value is the source value (and fits the target)
                lo, hi, tags = self.of(t[2][0], None, depth + 1)
                r = ty_range(ty)
                if r:
                    lo, hi = max(lo, r[0]), min(hi, r[1])
                return (lo, hi, tags)
            if sh in ("branch", "unwrap", "from", "into", "clone", "to_owned", "unwrap_or", "unwrap_or_default", "ok_or", "expect", "deref", "unwrap_or_else",
                      "map_err", "ok", "ok_or_else"):
                if t[2]:
                    return self.of(t[2][0], ty, depth + 1)
            tags = set()
            for a in t[2]:
                tags |= self.tags_of(a, depth + 1)
            r = ty_range(ty) or (0, (1 << 64) - 1)
            # a local function returning an integer: look inside for its provenance
            lb = self.body.facts.body(nm)
            if lb is not None and depth < 6:
                sub = Prov(lb)
                agg = set()
                for bi, si, s in lb.stmts():
                    if s["k"] == "assign" and s["lhs"]["l"] == 0:
                        agg |= sub.tags_of(lb.term_of_rvalue(s["rv"]), depth + 8)
                tags |= agg - {"param"}
            return (r[0], r[1], tags or {"opaque"})
        if tag in ("field", "downcast", "index"):
            # payload of a call result / element of a collection: provenance of the base
            inner = self.of(t[1], None, depth + 1)
            r = ty_range(ty) or (inner[0], inner[1])
            if tag == "field" and len(t) > 4 and t[4] and str(t[4]).startswith("mila::") and "input" not in inner[2]:
                # field of a parsed struct (EntryMetadata.file_address …): follow to where such structs are built
                tags = set(inner[2]) | self.struct_field_tags(t[4], t[2])
                return (r[0], r[1], tags)
            # an element taken out of a stream read keeps the read's own interval (e.g. Continue payload)
            if "input" in inner[2] and tag in ("field", "downcast"):
                tr = ty_range(ty)
                if tr and (inner[0] < tr[0] or inner[1] > tr[1]):
                    return (tr[0], tr[1], inner[2])
                return (inner[0], inner[1], inner[2])
            return (r[0], r[1], inner[2])
        if tag == "var":
            l = t[1]
            r = ty_range(self.body.local_ty(l)) or (0, (1 << 64) - 1)
            if l in self.var_stack:
                return (r[0], r[1], set())
            self.var_stack.add(l)
            tags = set()
            lo = hi = None
            cyclic = False
            try:
                for (bi, si, kind, payload) in self.body.defs().get(l, []):
                    if kind == "assign":
                        dt = self.body.term_of_rvalue(payload["rv"])
                    else:
                        dt = self.body.term_of_call(payload, bi)
                    if any(x[0] == "var" and x[1] == l for x in walk(dt)):
                        cyclic = True
                    d = self.of(dt, self.body.local_ty(l), depth + 1)
                    tags |= set(d[2])
                    lo = d[0] if lo is None else min(lo, d[0])
                    hi = d[1] if hi is None else max(hi, d[1])
            finally:
                self.var_stack.discard(l)
            if cyclic or lo is None:
                # loop-carried: no flow-insensitive bound
                tags = (tags - {"const"}) | {"counter"}
                return (r[0], r[1], tags)
            # a merge of independent definitions (if/else, match): join of their intervals
            tags = (tags - {"const"}) or {"const"}
            return (max(lo, r[0]), min(hi, r[1]), tags)
        if tag == "un":
            a = self.of(t[2], ty, depth + 1)
            r = ty_range(ty) or (0, (1 << 64) - 1)
            return (r[0], r[1], a[2])
        r = ty_range(ty) or (0, (1 << 64) - 1)
        return (r[0], r[1], {"opaque"})

    def tags_of(self, t, depth=0):
        try:
            return set(self.of(t, None, depth)[2])
        except RecursionError:
            return {"opaque"}

    def struct_field_tags(self, adt, field):
        """Provenance of a field of a local struct: union over every construction site in the crate."""
        facts = self.body.facts
        key = (adt, field)
        cache = facts.__dict__.setdefault("_sft", {})
        if key in cache:
            return cache[key]
        cache[key] = set()
        tags = set()
        for b in facts.bodies.values():
            for bi, si, s in b.stmts():
                if s["k"] == "assign" and s["rv"]["k"] == "agg" and s["rv"].get("def") == adt:
                    names = s["rv"].get("field_names", [])
                    if field in names:
                        op = s["rv"]["fields"][names.index(field)]
                        tags |= Prov(b).tags_of(b.term_of_operand(op), 10)
        cache[key] = tags
        return tags


def dominating_bounds(body, bb, cd=None):
    """Boolean comparison guards that hold at block bb: list of (op, lhs term, rhs term)."""
    out = []
    gs = list(guards(body, bb, cd, skip_try=True))
    # plus what holds through the success arm of an expanded helper's Result (the check sits on the helper's only
    # Ok path; the early `return Err` paths bypass it, so it is no control dependence of the continuation)
    seen_g = set((a, s) for (a, s, c) in gs)
    gs += [(a, s, c) for (a, s, c) in dom_guards(body, bb, cd) if (a, s) not in seen_g]
    for (a, s, c) in gs:
        ct = cond_truth(c)
        if ct is None:
            continue
        term, truth = ct
        if term[0] == "bin" and term[1] in ("Lt", "Le", "Gt", "Ge", "Eq", "Ne"):
            op = term[1]
            if not truth:
                op = {"Lt": "Ge", "Le": "Gt", "Gt": "Le", "Ge": "Lt", "Eq": "Ne", "Ne": "Eq"}[op]
            out.append((op, term[2], term[3]))
        elif term[0] == "un" and term[1] == "Not" and term[2][0] == "bin":
            t2 = term[2]
            op = t2[1]
            if truth:
                op = {"Lt": "Ge", "Le": "Gt", "Gt": "Le", "Ge": "Lt", "Eq": "Ne", "Ne": "Eq"}.get(op, op)
            out.append((op, t2[2], t2[3]))
    return out


def run(facts, rep, ctx):
    R1 = rep.rule("R05.1", "no reachable explicit panic (todo!/unimplemented!/panic!/unreachable!) and no unwrap/expect on an unproven value", floor=0)
    R2 = rep.rule("R05.2", "no arithmetic on input-derived values that can overflow its type", floor=0)
    R3 = rep.rule("R05.3", "no allocation sized by an input field without a dominating bound against the input length", floor=0)
    R4 = rep.rule("R05.4", "the untrusted input slice is never indexed or sliced without a dominating length test", floor=0)
    R5 = rep.rule("R05.5", "every loop reachable from a parser makes progress or is finite", floor=10)
    R0 = rep.rule("R05.0", "anchors present and reachable set analysed", floor=13)
    roots = []
    for n in PARSERS + SERIALIZERS:
        b = facts.body(n)
        if b is None or not b.pub:
            rep.inconc(R0, "anchor %s missing" % n)
        else:
            roots.append(b)
            rep.ok(R0, {"anchor": n})
    pids, pext = facts.reachable_from([b.id for b in roots if b.name in PARSERS])
    sids, sext = facts.reachable_from([b.id for b in roots if b.name in SERIALIZERS])
    rep.count("bodies_reachable_from_parsers", len(pids))
    rep.count("bodies_reachable_from_serializers", len(sids))
    if len(pids) < 40:
        rep.inconc(R0, "only %d bodies reachable from the parsers: call graph looks broken" % len(pids))
    # Functions of the confirmed tree are analysed in their *analysis view* (new helpers, visible closures and
    # loop adaptors expanded in place), so a bound established in the caller is visible at the use inside a new
    # helper and vice versa.  Code that only exists inlined (new helpers; closures expanded at their call) is also
    # analysed on its own, but what is found there counts only when the same site is also flagged in a view that
    # contains it in context: a helper may rely on its callers' checks.
    names, _ids = facts.known()
    views = {}
    inlined_somewhere = set()
    todo = []
    for bid in sorted(pids | sids):
        raw = facts.bodies[bid]
        if "fmt::Debug" in raw.name or "fmt::Display" in raw.name or "std::error::Error" in raw.name:
            continue
        todo.append(raw)
        if raw.kind != "Closure" and raw.name in names:
            v = facts.body(raw.id)
            views[raw.id] = v
            inlined_somewhere |= set(getattr(v, "inlined_ids", ()) or ())
    rules = (R1, R2, R3, R4, R5)
    provisional = []
    for raw in todo:
        is_parser = raw.id in pids
        if raw.id in views:
            analyse_body(facts, rep, views[raw.id], is_parser, rules, reach=pids | sids)
        elif raw.id in inlined_somewhere:
            sub = Report(rep.pid)
            sub.rules = {k: dict(v) for k, v in rep.rules.items()}
            analyse_body(facts, sub, raw, is_parser, rules, reach=pids | sids)
            provisional.extend((raw, v) for v in sub.violations)
            for d in sub.inconclusive:
                rep.inconc(d["rule"], d["reason"])
        elif raw.kind == "Closure":
            analyse_body(facts, rep, raw, is_parser, rules, reach=pids | sids)
        else:
            sub = Report(rep.pid)
            sub.rules = {k: dict(v) for k, v in rep.rules.items()}
            analyse_body(facts, sub, raw, is_parser, rules, reach=pids | sids)
            for v in sub.violations:
                rep.inconc(v["rule"], "in the new helper %s, which could not be expanded into its callers: %s" % (raw.name, v["msg"]))
            for d in sub.inconclusive:
                rep.inconc(d["rule"], d["reason"])
    accessor_totality(facts, rep, pids, ctx)
    flagged = set((v["rule"], str(v["where"]).rsplit(":", 1)[-1]) for v in rep.violations)
    for raw, v in provisional:
        if (v["rule"], str(v["where"]).rsplit(":", 1)[-1]) in flagged:
            continue        # reported in context already
        rep.count("helper_sites_discharged_in_caller_context")


def accessor_totality(facts, rep, pids, ctx):
    """The layered parsers (text archive, aset, asset binary) read the untrusted image through BinArchive's positional
    accessors and the stream reader built on them.  Their totality is C04's decision tables (guard <=> range at every
    ordering class of address / size / amount, including near usize::MAX): an accessor reachable from a parser that
    indexes where its guard lets an out-of-range address through panics on a crafted image.  The tables are evaluated
    here for exactly the accessors in the parsers' reachable set."""
    R6 = rep.rule("R05.6", "every BinArchive accessor reachable from a parser is total: its guard rejects exactly the out-of-range addresses at every ordering class (C04's decision tables, restricted to the parsers' reachable set)", floor=8)
    import c04
    sub = Report("C04")
    try:
        c04.run(facts, sub, ctx)
    except Exception as ex:  # the imported analysis failing is not a verdict
        rep.inconc(R6, "accessor tables could not be evaluated: %s" % ex)
        return
    reach_names = set(facts.bodies[i].name for i in pids)
    seen = set()
    for v in sub.violations:
        if v["rule"] != "R04.2" or v["fn"] not in reach_names:
            continue
        kind = v["key"].rsplit("|", 1)[-1]
        if kind in ("panic", "accepts-invalid", "access-before-error"):
            seen.add(v["fn"])
            rep.violation(R6, v["fn"], "accessor:" + kind, "reachable from the parsers: " + v["msg"], v["where"])
    for d in sub.inconclusive:
        if d["rule"] == "R04.2":
            rep.inconc(R6, d["reason"])
    for smp in sub.samples:
        if smp["rule"] == "R04.2" and smp["instance"].get("fn") in reach_names and smp["instance"]["fn"] not in seen:
            rep.ok(R6, {"accessor": smp["instance"]["fn"], "classes": smp["instance"].get("classes")})


PANIC_FNS = ("core::panicking::panic", "core::panicking::panic_fmt", "core::panicking::panic_explicit", "std::rt::begin_panic",
             "core::panicking::unreachable_display", "core::panicking::panic_nounwind", "core::panicking::assert_failed")


def analyse_body(facts, rep, b, is_parser, rules, reach=None):
    R1, R2, R3, R4, R5 = rules
    P = Prov(b)
    cd = None
    short = b.name
    # ---- explicit panics / unwraps --------------------------------------------------------------
    for bb, t in b.calls():
        n = callee_names(t)
        nm = n[1] or n[0] or ""
        where = "%s:%s" % (b.file, t["line"])
        sh = nm.rsplit("::", 1)[-1]
        if nm.startswith("core::panicking::") or nm in PANIC_FNS:
            # message constant tells todo!/unimplemented!
            msg = ""
            for a in t["args"]:
                term = b.term_of_operand(a)
                for x in walk(term):
                    if x[0] == "const" and isinstance(x[1], str):
                        msg = x[1]
            is_assert = msg.startswith("assertion") or nm.endswith("assert_failed") or nm.endswith("assert_failed_inner")
            if is_assert:
                # an assertion states an invariant: proven from the dominating comparisons -> fine; on a value read
                # from the input and not proven -> a panic an input can reach; otherwise not decided
                if cd is None:
                    cd = control_deps(b)
                verdict, tags = assertion_status(b, bb, cd, P)
                if verdict:
                    rep.ok(R1, {"fn": b.name, "assertion": msg[:60], "discharged": "follows from dominating comparisons"})
                    rep.count("assertions_discharged")
                elif "input" in tags and is_parser:
                    # (no witness input is at hand: the relation may hold by construction of the values compared)
                    rep.inconc(R1, "%s: the assertion (%s) is about values taken from the input and was not proven from the checks before it" % (b.name.rsplit("::", 1)[-1], (msg or nm)[:70]))
                else:
                    rep.inconc(R1, "%s: the assertion (%s) states an invariant that was not proven" % (b.name.rsplit("::", 1)[-1], (msg or nm)[:70]))
                continue
            rep.violation(R1, b.name, "panic:%s" % (msg or sh)[:40], "%s reaches an explicit panic (%s) on a branch controlled by its input" % (b.name, msg or nm), where)
            continue
        if sh in ("unwrap", "expect") and (nm.startswith("std::option::Option") or nm.startswith("std::result::Result")):
            term = b.term_of_operand(t["args"][0])
            if cd is None:
                cd = control_deps(b)
            if unwrap_is_guarded(b, bb, term, cd) or unwrap_is_infallible(term):
                rep.ok(R1, {"fn": b.name, "unwrap": fmt(norm(term))[:60], "discharged": "guarded or infallible"})
                rep.count("unwrap_discharged")
            else:
                tags = P.tags_of(term)
                rep.violation(R1, b.name, "unwrap:%s" % fmt(norm(term))[:50], "%s unwraps %s without a dominating check" % (b.name.rsplit("::", 1)[-1], fmt(norm(term))[:80]), where)
        # ---- allocations ------------------------------------------------------------------------
        size_arg = None
        if nm.endswith("vec::from_elem") and len(t["args"]) == 2:
            size_arg = t["args"][1]
        elif sh in ("with_capacity",) and t["args"]:
            size_arg = t["args"][0]
        elif sh in ("resize", "reserve", "reserve_exact", "resize_with") and len(t["args"]) >= 2 and ("Vec" in nm or "String" in nm):
            size_arg = t["args"][1]
        if size_arg is not None:
            term = b.term_of_operand(size_arg)
            lo, hi, tags = P.of(term, "usize")
            if "input" in tags and hi > (1 << 20):
                if cd is None:
                    cd = control_deps(b)
                if bounded_by_len(b, bb, term, cd, P) or capped_by_len(term, P):
                    rep.ok(R3, {"fn": b.name, "alloc": fmt(norm(term))[:60], "bounded": True})
                elif unresolved_len_guard(b, bb, cd, (term,)):
                    rep.inconc(R3, "%s allocates %s after a comparison with the buffer length whose other side is a value this analysis did not resolve" % (b.name.rsplit("::", 1)[-1], fmt(norm(term))[:60]))
                else:
                    rep.violation(R3, b.name, "alloc:%s" % fmt(norm(term))[:50], "%s allocates %s bytes/elements taken from the input (up to %s) before checking it against the buffer" % (b.name.rsplit("::", 1)[-1], fmt(norm(term))[:70], hexs(hi)), where)
            elif "input" in tags:
                rep.ok(R3, {"fn": b.name, "alloc": fmt(norm(term))[:60], "max": hi})
            elif "param" in tags and hi > (1 << 20) and (bounded_by_len(b, bb, term, cd or control_deps(b), P) or capped_by_len(term, P)):
                # the callee itself compares the request with what the container holds before allocating
                rep.ok(R3, {"fn": b.name, "alloc": fmt(norm(term))[:60], "bounded": "in the callee"})
            elif "param" in tags and hi > (1 << 20):
                # sized by a parameter: follow it to the callers (one level) inside the reachable set
                pidx = [x[1] for x in walk(term) if x[0] == "param"]
                flagged = False
                for cb, cbb in facts.callers_of(b.id):
                    if reach is not None and cb.id not in reach:
                        continue
                    ct = cb.blocks[cbb]["term"]
                    CP = Prov(cb)
                    for pi in pidx:
                        if pi - 1 < len(ct["args"]):
                            at = cb.term_of_operand(ct["args"][pi - 1])
                            alo, ahi, atags = CP.of(at, "usize")
                            if "input" in atags and ahi > (1 << 20):
                                ccd = control_deps(cb)
                                if not bounded_by_len(cb, cbb, at, ccd, CP):
                                    flagged = True
                                    rep.violation(R3, b.name, "alloc-via:%s" % cb.name.rsplit("::", 1)[-1],
                                                  "%s allocates its `%s` argument up front and %s passes an unchecked input field (%s, up to %s)" % (
                                                      b.name.rsplit("::", 1)[-1], b.local_name(pi), cb.name, fmt(norm(at))[:50], hexs(ahi)), where)
                if not flagged:
                    rep.count("alloc_param_sized_callers_bounded")
            else:
                rep.count("alloc_not_input_sized")
        # ---- raw index of the input slice -----------------------------------------------------------
        if is_parser and (("ops::Index" in nm and sh in ("index", "index_mut")) or nm.endswith("<impl [T]>::split_at")) and len(t["args"]) == 2:
            base = strip_refs(b.term_of_operand(t["args"][0]))
            while base[0] == "deref":
                base = strip_refs(base[1])
            if cd is None:
                cd = control_deps(b)
            idx = b.term_of_operand(t["args"][1])
            if sh == "split_at":
                idx = ("agg", "adt", "std::ops::RangeTo", "RangeTo", (idx,))
            verdict = slice_access_ok(b, bb, base, idx, cd, P)
            if verdict is None:
                rep.count("index_of_non_input_slices")
            elif verdict or (base[0] == "param" and sh != "split_at" and index_guarded(b, bb, base, b.term_of_operand(t["args"][1]), cd, P)):
                rep.ok(R4, {"fn": b.name, "index": fmt(norm(idx))[:50], "guarded": True})
            else:
                rep.violation(R4, b.name, "index:%s" % fmt(norm(idx))[:40], "%s indexes its input with %s without a dominating length test" % (b.name.rsplit("::", 1)[-1], fmt(norm(idx))[:60]), where)
    # ---- asserts -------------------------------------------------------------------------------------
    for bb, t in b.asserts():
        m = t["msg"]
        kind = m["kind"]
        where = "%s:%s" % (b.file, t["line"])
        if kind in ("Misaligned", "NullPtr"):
            continue
        if kind == "Overflow":
            aty = m.get("aty")
            a = b.term_of_operand(m["a"])
            c = b.term_of_operand(m["b"])
            op = m["op"]
            res = P.of(("bin", op, a, c, aty), aty)
            r = ty_range(aty)
            tags = res[2]
            rep.count("overflow_sites")
            if r and res[0] >= r[0] and res[1] <= r[1]:
                rep.count("overflow_discharged_by_interval")
                continue
            if op in ("Shl", "Shr"):
                # shift amount check
                sb = P.of(c, aty)
                if sb[1] < BITS.get(aty, 64):
                    rep.count("overflow_discharged_by_interval")
                    continue
            if "counter" in tags and op in ("Add", "Mul", "Shl"):
                # loop-carried operand: a flow-insensitive interval cannot bound it either way
                rep.count("overflow_not_decided_loop_carried")
                continue
            if "input" in tags or ("param" in tags and b.pub and is_parser):
                if cd is None:
                    cd = control_deps(b)
                if overflow_guarded(b, bb, op, a, c, aty, cd, P):
                    rep.count("overflow_discharged_by_guard")
                    continue
                if unresolved_len_guard(b, bb, cd, (a, c)):
                    rep.inconc(R2, "%s computes %s on input-derived values after a comparison with the buffer length whose other side was not resolved" % (b.name.rsplit("::", 1)[-1], op))
                    continue
                if "input" in tags:
                    rep.violation(R2, b.name, "overflow:%s:%s" % (op, fmt(norm(a))[:30] + "," + fmt(norm(c))[:30]),
                                  "%s computes %s(%s, %s) in %s on input-derived values: range %s..%s exceeds the type" % (
                                      b.name.rsplit("::", 1)[-1], op, fmt(norm(a))[:50], fmt(norm(c))[:50], aty, hexs(res[0]), hexs(res[1])), where)
                else:
                    rep.count("overflow_not_decided_param")
            else:
                rep.count("overflow_not_decided_internal")
        elif kind == "BoundsCheck":
            rep.count("bounds_check_sites")
            idx = b.term_of_operand(m["index"])
            ln = b.term_of_operand(m["len"])
            pi = P.of(idx, "usize")
            pl = P.of(ln, "usize")
            if pi[1] < max(pl[0], 1) and pl[0] > 0:
                rep.count("bounds_discharged_by_interval")
            elif "input" in pi[2]:
                if cd is None:
                    cd = control_deps(b)
                rep.violation(R4, b.name, "bounds:%s" % fmt(norm(idx))[:40], "%s indexes an array of length %s with input-derived %s (max %s)" % (b.name.rsplit("::", 1)[-1], fmt(norm(ln))[:30], fmt(norm(idx))[:50], hexs(pi[1])), where)
            else:
                rep.count("bounds_not_decided")
        elif kind in ("DivisionByZero", "RemainderByZero"):
            # the message operand is the dividend; the divisor is what the asserted condition compares with zero
            ct = b.term_of_operand(t["cond"])
            a = None
            if ct[0] == "bin" and ct[1] == "Eq":
                if ct[3][0] == "const" and ct[3][1] == 0:
                    a = ct[2]
                elif ct[2][0] == "const" and ct[2][1] == 0:
                    a = ct[3]
            if a is None:
                rep.count("divzero_not_decided")
                continue
            pa = P.of(a, None)
            if pa[0] > 0 or pa[1] < 0:
                rep.count("divzero_discharged")
            elif "input" in pa[2]:
                rep.violation(R2, b.name, "divzero:%s" % fmt(norm(a))[:40], "%s divides by input-derived %s which may be zero" % (b.name, fmt(norm(a))[:50]), where)
            else:
                rep.count("divzero_not_decided")
    # ---- loops ---------------------------------------------------------------------------------------
    if is_parser:
        loops = for_loops(b)
        for lp in loops:
            where = "%s:%s" % (b.file, b.blocks[lp["head"]]["term"].get("line"))
            if lp["kind"] == "for":
                rep.ok(R5, {"fn": b.name, "loop": "for over " + (lp.get("next_name") or "?").split(" as ")[0][-50:], "finite": True})
                continue
            if loop_progress(b, lp):
                rep.ok(R5, {"fn": b.name, "loop": "while", "progress": True})
            else:
                rep.violation(R5, b.name, "loop@%s" % fmt(norm(loop_cond(b, lp)))[:50], "%s contains a loop with a path back to its head that neither advances a cursor nor exits" % b.name, where)


def hexs(v):
    return hex(v) if abs(v) > 9 else str(v)


def unwrap_is_infallible(term):
    t = strip_refs(term)
    # to_str() on an OsStr that came from a &str path; try_from on a fixed-size range is handled by map_err
    if t[0] == "call" and t[1] in ("std::path::Path::to_str", "std::ffi::OsStr::to_str"):
        return True
    if t[0] == "agg" and t[3] in ("Some", "Ok"):
        return True
    return False


def unwrap_is_guarded(b, bb, term, cd):
    """The unwrap at bb cannot see the failing variant: some dominating branch tests `is_err()/is_none()` (or
    `is_ok()/is_some()`) on the same value, and bb is not reachable from the arm on which the value is the failing
    variant.  (`a.is_err() || b.is_err()` -> return  protects both unwraps; `&&` protects neither.)"""
    nt = norm(term)
    for bi in range(len(b.blocks)):
        if not b.dominates(bi, bb) or bi == bb:
            continue
        t = b.blocks[bi]["term"]
        if t["k"] != "switch":
            continue
        d = b.term_of_operand(t["d"])
        inv = False
        while d[0] == "un" and d[1] == "Not":
            d, inv = d[2], not inv
        if not (d[0] == "call" and d[2] and norm(d[2][0]) == nt):
            continue
        sh = d[1].rsplit("::", 1)[-1]
        if sh not in ("is_err", "is_none", "is_ok", "is_some"):
            continue
        # successor taken when the call returns true / false
        true_succ = t["otherwise"]
        false_succ = None
        for v, tb in t["targets"]:
            if v == 0:
                false_succ = tb
        if false_succ is None:
            continue
        if inv:
            true_succ, false_succ = false_succ, true_succ
        failing_arm = true_succ if sh in ("is_err", "is_none") else false_succ
        if bb not in b.reachable_blocks(failing_arm, avoid={bi}):
            return True
    # a `match`/`if let` on the value itself: bb lies in the Ok/Some arm
    for (a, s, c) in dom_guards(b, bb, cd):
        term_, vals, neg, dty = c
        if term_[0] == "discr" and norm(term_[1]) == nt:
            ok_variant = (vals == (0,) and not neg) if "Result" in str(term_[2] if len(term_) > 2 else "") else None
            return True
    return False


def assertion_status(b, bb, cd, P):
    """(proven, provenance tags of the asserted condition) for the panic call ending block bb."""
    tags = set()
    proven = None
    # the blocks that branch into the panic block (one per conjunct of the asserted condition)
    srcs = [bi for bi in range(len(b.blocks)) if b.blocks[bi]["term"]["k"] == "switch" and bb in b.succs(bi)]
    # the panic call may sit one or two straight-line blocks after the branch (message formatting)
    if not srcs:
        front = {bb}
        for _ in range(4):
            prev = set(bi for bi in range(len(b.blocks)) if set(b.succs(bi)) & front and not b.blocks[bi]["cleanup"])
            sw = [bi for bi in prev if b.blocks[bi]["term"]["k"] == "switch"]
            if sw:
                srcs = sw
                break
            front = prev
    for a in srcs:
        tt = b.blocks[a]["term"]
        d = b.term_of_operand(tt["d"])
        tags |= set(P.tags_of(d))
        # which way leads to the panic?
        into = [s_ for s_ in b.succs(a) if s_ == bb or b.dominates(s_, bb)]
        if len(into) != 1:
            proven = False
            continue
        truth = None
        for v_, tb in tt["targets"]:
            if tb == into[0]:
                truth = bool(v_)
        if truth is None and tt["otherwise"] == into[0]:
            truth = not any(v_ == 1 for v_, tb in tt["targets"]) if tt.get("dty") == "bool" else None
        t = d
        while t[0] == "un" and t[1] == "Not":
            t = t[2]
            truth = (not truth) if truth is not None else None
        if truth is None or t[0] != "bin" or t[1] not in ("Lt", "Le", "Gt", "Ge"):
            proven = False
            continue
        # the panic is reached when (t == truth); the assertion is the opposite comparison
        op = t[1] if not truth else {"Lt": "Ge", "Le": "Gt", "Gt": "Le", "Ge": "Lt"}[t[1]]
        try:
            l, r = lin(b, t[2], P, a, cd), lin(b, t[3], P, a, cd)
        except Exception:
            l = r = None
        if l is None or r is None:
            proven = False
            continue
        goal = {"Ge": _lin_add(l, r, -1), "Gt": _lin_add(_lin_add(l, r, -1), ({}, 1), -1),
                "Le": _lin_add(r, l, -1), "Lt": _lin_add(_lin_add(r, l, -1), ({}, 1), -1)}[op]
        try:
            ok = entails(b, a, cd, P, goal)
        except Exception:
            ok = False
        proven = ok if proven is None else (proven and ok)
    return bool(proven), tags


def unresolved_len_guard(b, bb, cd, terms=()):
    """a dominating comparison with a length whose other side is a local with several definitions (the result of an
    expanded helper, a value assembled on several paths) *that the value in question is computed from*: it may well
    bound it.  (A loop condition `out.len() < size` says nothing about `out.len() - disp`.)  Likewise a comparison
    with a length made inside a closure of this function (`.filter(|v| v + K <= bytes.len())`)."""
    stake = {x[1] for t_ in terms for x in walk(t_) if x[0] == "var"}

    def reads(t_, seen, depth=0):
        """the stream reads (callee, block) a term is computed from, through multiply-defined locals"""
        out = set()
        for x in walk(t_):
            if x[0] == "call" and "read_" in x[1].rsplit("::", 1)[-1] and len(x) > 3:
                out.add((x[1], x[3]))
            elif x[0] == "var" and x[1] not in seen and depth < 6:
                seen.add(x[1])
                for d_ in b.defs().get(x[1], []):
                    try:
                        if d_[2] == "assign":
                            out |= reads(b.term_of_rvalue(d_[3]["rv"]), seen, depth + 1)
                        elif d_[2] == "call":
                            nm_ = callee_names(d_[3])[1] or callee_names(d_[3])[0] or ""
                            if "read_" in nm_.rsplit("::", 1)[-1]:
                                out.add((nm_, d_[0]))
                            for a_ in d_[3]["args"]:
                                out |= reads(b.term_of_operand(a_), seen, depth + 1)
                    except Exception:
                        pass
        return out
    stake_reads = set()
    for t_ in terms:
        stake_reads |= reads(t_, set())
    try:
        for cb in b.facts.closures_of(b):
            for bi, si, st in cb.stmts():
                if st["k"] == "assign" and st["rv"]["k"] == "bin" and st["rv"]["op"] in ("Lt", "Le", "Gt", "Ge"):
                    t_ = cb.term_of_rvalue(st["rv"])
                    if any(x[0] == "call" and x[1].rsplit("::", 1)[-1] == "len" for x in walk(t_)) or any(x[0] == "un" and x[1] == "PtrMetadata" for x in walk(t_)):
                        return True
    except Exception:
        pass
    for op, lhs, rhs in dominating_bounds(b, bb, cd):
        for side, other in ((lhs, rhs), (rhs, lhs)):
            is_len = any(x[0] == "call" and x[1].rsplit("::", 1)[-1] in ("len", "size") for x in walk(other))
            if is_len and any(x[0] == "var" and (not terms or x[1] in stake) for x in walk(side)):
                return True
            if is_len and terms and any(x[0] == "var" for x in walk(side)) and stake_reads & reads(side, set()):
                return True     # the unresolved side is computed from the same stream read as the value in question
    return False


def capped_by_len(term, P):
    """`min(x, f(len))`: the request is capped by an expression of a container's own length (no input-derived
    value in that operand), whatever x is"""
    t = strip_refs(term)
    while t[0] == "cast":
        t = strip_refs(t[1])
    if t[0] == "call" and t[1].rsplit("::", 1)[-1] == "min" and len(t[2]) == 2:
        for a in t[2]:
            has_len = any(x[0] == "call" and x[1].rsplit("::", 1)[-1] in ("len", "size") for x in walk(a))
            if has_len and "input" not in P.tags_of(a):
                return True
    return False


def bounded_by_len(b, bb, term, cd, P):
    """Is `term` (or a sum containing it) compared against a length on a dominating guard?"""
    atoms = set(norm(x) for x in walk(term) if x[0] in ("call", "field", "var", "param", "downcast"))
    nt = norm(term)
    for op, lhs, rhs in dominating_bounds(b, bb, cd):
        for side, other in ((lhs, rhs), (rhs, lhs)):
            has = any(norm(x) in atoms or norm(x) == nt for x in walk(side))
            is_len = any(x[0] == "call" and x[1].rsplit("::", 1)[-1] in ("len", "size") for x in walk(other))
            if has and is_len:
                return True
    # also accept a dominating early return on the opposite comparison anywhere before (straight-line
    # guards are control dependences of the *exit*, not of the continuation)
    for bi in range(len(b.blocks)):
        if not b.dominates(bi, bb) or bi == bb:
            continue
        t = b.blocks[bi]["term"]
        if t["k"] == "switch":
            d = b.term_of_operand(t["d"])
            if d[0] == "bin" and d[1] in ("Lt", "Le", "Gt", "Ge"):
                for side, other in ((d[2], d[3]), (d[3], d[2])):
                    has = any(norm(x) in atoms or norm(x) == nt for x in walk(side))
                    is_len = any(x[0] == "call" and x[1].rsplit("::", 1)[-1] in ("len", "size") for x in walk(other))
                    if has and is_len:
                        return True
    return False


def overflow_guarded(b, bb, op, a, c, aty, cd, P):
    """Dominating comparison that bounds the input-derived operand by a length (then the sum of two
    lengths/positions cannot overflow usize)."""
    if aty not in ("usize", "u64"):
        return False
    for operand in (a, c):
        if "input" in P.tags_of(operand) or "param" in P.tags_of(operand):
            if not bounded_by_len(b, bb, operand, cd, P):
                return False
    return True


# ---- a small linear prover over non-negative atoms ---------------------------------------------------
# Goal and hypotheses are inequalities  sum(c_i * atom_i) + c0 >= 0  in unbounded integers.  A sub-term enters
# a linear form only when its machine arithmetic provably does not wrap (interval of the operands fits the
# type; a subtraction's difference is itself proven non-negative), so the forms mean the same in checked and
# unchecked builds.  Atoms are unsigned machine values: they are >= 0 and bounded by their interval.

def _lin_add(a, b, k=1):
    d = dict(a[0])
    for t_, v in b[0].items():
        d[t_] = d.get(t_, 0) + k * v
    return ({t_: v for t_, v in d.items() if v}, a[1] + k * b[1])


def slice_len(b, t, P, bb, cd, depth=0):
    """Length of a slice expression derived from a `&[u8]` parameter, as a linear form over ('len', param)."""
    t = strip_refs(t)
    while t[0] == "deref":
        t = strip_refs(t[1])
    if depth > 12:
        return None
    if t[0] == "param" and b.local_ty(t[1]) in ("&[u8]", "&mut [u8]"):
        return ({("len", t[1]): 1}, 0)
    if t[0] == "call":
        sh = t[1].rsplit("::", 1)[-1]
        if "ops::Index" in t[1] and sh == "index" and len(t[2]) == 2:
            base, idx = t[2]
            if idx[0] == "agg" and idx[2] and idx[2].startswith("std::ops::Range"):
                kind = idx[2].rsplit("::", 1)[-1]
                if kind == "Range" and len(idx[4]) == 2:
                    s_, e_ = lin(b, idx[4][0], P, bb, cd, depth + 1), lin(b, idx[4][1], P, bb, cd, depth + 1)
                    return _lin_add(e_, s_, -1) if s_ and e_ else None
                if kind == "RangeTo" and len(idx[4]) == 1:
                    return lin(b, idx[4][0], P, bb, cd, depth + 1)
                bl = slice_len(b, base, P, bb, cd, depth + 1)
                if bl is None:
                    return None
                if kind == "RangeFrom" and len(idx[4]) == 1:
                    s_ = lin(b, idx[4][0], P, bb, cd, depth + 1)
                    return _lin_add(bl, s_, -1) if s_ else None
                if kind == "RangeFull":
                    return bl
            return None
        if sh in ("deref", "as_ref", "borrow", "as_slice", "clone", "into", "from") and len(t[2]) == 1:
            return slice_len(b, t[2][0], P, bb, cd, depth + 1)
    if t[0] == "field" and strip_refs(t[1])[0] == "call" and strip_refs(t[1])[1].endswith("<impl [T]>::split_at") and t[3] in (0, 1):
        c = strip_refs(t[1])
        mid = lin(b, c[2][1], P, bb, cd, depth + 1)
        if mid is None:
            return None
        if t[3] == 0:
            return mid
        bl = slice_len(b, c[2][0], P, bb, cd, depth + 1)
        return _lin_add(bl, mid, -1) if bl else None
    return None


def lin(b, t, P, bb=None, cd=None, depth=0, ty=None):
    """Linear form of an unsigned integer term, or a single atom when its arithmetic may wrap."""
    t = strip_refs(t)
    while t[0] == "deref":
        t = strip_refs(t[1])
    atom = ({t: 1}, 0)
    if ty is not None and ty_range(ty) is not None:
        try:
            lo_, hi_, _ = P.of(t, ty)
        except (RecursionError, IndexError):
            lo_, hi_ = ty_range(ty)
        tr_ = ty_range(ty)
        lo_, hi_ = max(lo_, tr_[0], 0), min(hi_, tr_[1])
        old_ = P.memo.setdefault("rng", {}).get(t)
        P.memo["rng"][t] = (lo_, hi_) if old_ is None else (max(lo_, old_[0]), min(hi_, old_[1]))
    if depth > 14:
        return atom
    if t[0] == "const":
        if isinstance(t[1], int) and not isinstance(t[1], bool):
            return ({}, t[1])
        return atom
    if t[0] == "cast":
        to_, from_ = t[2], t[3]
        r = ty_range(to_)
        if r is None or ty_range(from_) is None:
            return atom
        lo, hi, _ = P.of(t[1], from_)
        f = lin(b, t[1], P, bb, cd, depth + 1, from_)
        if lo < 0 and ty_range(from_)[0] == 0:
            # the interval allows a wrapping subtraction; the form is usable only if that was excluded
            inner = strip_refs(t[1])
            if f == ({inner: 1}, 0):
                return atom
            lo = 0
        if lo >= r[0] and hi <= r[1]:
            return f
        return atom
    if t[0] == "call":
        sh = t[1].rsplit("::", 1)[-1]
        if sh in ("from", "into") and len(t[2]) == 1 and re.search(r"From<u(8|16|32|64|size)> for u(16|32|64|128|size)>", t[1]):
            return lin(b, t[2][0], P, bb, cd, depth + 1, "u" + re.search(r"From<u(8|16|32|64|size)>", t[1]).group(1))
        if sh == "len" and len(t[2]) == 1:
            sl = slice_len(b, t[2][0], P, bb, cd, depth + 1)
            if sl is not None:
                return sl
        if sh == "branch" and len(t[2]) == 1:
            return atom
        return atom
    if t[0] == "un" and t[1] == "PtrMetadata":
        sl = slice_len(b, t[2], P, bb, cd, depth + 1)
        return sl if sl is not None else atom
    if t[0] == "field" and t[1][0] == "bin" and t[1][1].endswith("WithOverflow") and t[3] == 0:
        t = ("bin", t[1][1].replace("WithOverflow", ""), t[1][2], t[1][3], t[1][4] if len(t[1]) > 4 else None)
    if t[0] == "bin":
        op = t[1].replace("WithOverflow", "").replace("Unchecked", "")
        aty = t[4] if len(t) > 4 else None
        r = ty_range(aty) if aty else None
        if r is None or r[0] < 0:
            return atom
        x, y = lin(b, t[2], P, bb, cd, depth + 1, aty), lin(b, t[3], P, bb, cd, depth + 1, aty if op not in ('Shl', 'Shr') else None)
        res = None
        if op == "Add":
            res = _lin_add(x, y)
        elif op == "Sub":
            res = _lin_add(x, y, -1)
        elif op == "Mul" and (not x[0] or not y[0]):
            k, z = (x[1], y) if not x[0] else (y[1], x)
            res = ({a_: v * k for a_, v in z[0].items()}, z[1] * k)
        elif op == "Shl" and not y[0] and 0 <= y[1] < 64:
            res = ({a_: v << y[1] for a_, v in x[0].items()}, x[1] << y[1])
        if res is None:
            return atom
        lo, hi = lin_bounds(res, b, P)
        if op == "Sub":
            if lo >= 0:
                return res
            nest = P.memo.get("nest", 0)
            if bb is not None and nest < 2:
                P.memo["nest"] = nest + 1
                try:
                    if entails(b, bb, cd, P, res):
                        return res
                finally:
                    P.memo["nest"] = nest
            return atom
        if hi <= r[1]:
            return res
        return atom
    return atom


def atom_range(a, b, P):
    if a[0] == "len":
        return (0, (1 << 63) - 1)
    if a in P.memo.get("rng", {}):
        return P.memo["rng"][a]
    try:
        lo, hi, _ = P.of(a, None)
    except (RecursionError, IndexError):
        return (0, (1 << 64) - 1)
    return (max(lo, 0), hi)


def lin_bounds(f, b, P):
    lo = hi = f[1]
    for a, c in f[0].items():
        alo, ahi = atom_range(a, b, P)
        lo += c * (alo if c > 0 else ahi)
        hi += c * (ahi if c > 0 else alo)
    return lo, hi


def hypotheses(b, bb, cd, P, depth=0):
    """The comparisons that hold whenever bb runs, as linear forms  h >= 0."""
    key = ("hyp", bb, P.memo.get("nest", 0))
    memo = P.memo
    if key in memo:
        return memo[key]
    memo[key] = []
    out = []
    for (a_, s_, c_) in dom_guards(b, bb, cd):
        ct = cond_truth(c_)
        if not ct:
            continue
        term, truth = ct
        while term[0] == "un" and term[1] == "Not":
            term, truth = term[2], not truth
        if term[0] != "bin" or term[1] not in ("Lt", "Le", "Gt", "Ge", "Eq", "Ne"):
            continue
        op = term[1]
        if not truth:
            op = {"Lt": "Ge", "Le": "Gt", "Gt": "Le", "Ge": "Lt", "Eq": "Ne", "Ne": "Eq"}[op]
        l_, r_ = lin(b, term[2], P, a_, cd), lin(b, term[3], P, a_, cd)
        if op == "Lt":
            out.append(_lin_add(_lin_add(r_, l_, -1), ({}, 1), -1))
        elif op == "Le":
            out.append(_lin_add(r_, l_, -1))
        elif op == "Gt":
            out.append(_lin_add(_lin_add(l_, r_, -1), ({}, 1), -1))
        elif op == "Ge":
            out.append(_lin_add(l_, r_, -1))
        elif op == "Eq":
            out.append(_lin_add(r_, l_, -1))
            out.append(_lin_add(l_, r_, -1))
    memo[key] = out
    return out


def entails(b, bb, cd, P, goal, depth=0):
    """goal >= 0 follows from the atoms' intervals, or from one or two dominating comparisons."""
    if lin_bounds(goal, b, P)[0] >= 0:
        return True
    if depth > 8:
        return False
    hs = hypotheses(b, bb, cd, P, depth)
    for h in hs:
        if lin_bounds(_lin_add(goal, h, -1), b, P)[0] >= 0:
            return True
    for i in range(len(hs)):
        for j in range(i + 1, len(hs)):
            if lin_bounds(_lin_add(_lin_add(goal, hs[i], -1), hs[j], -1), b, P)[0] >= 0:
                return True
    return False


def slice_access_ok(b, bb, base, idx, cd, P):
    """True / False / None (base is not a slice of the input) for  base[idx]  and  base.split_at(idx)."""
    bl = slice_len(b, base, P, bb, cd)
    if bl is None:
        return None
    if idx[0] == "agg" and idx[2] and str(idx[2]).startswith("std::ops::Range"):
        kind = idx[2].rsplit("::", 1)[-1]
        if kind == "RangeFull":
            return True
        parts = [lin(b, x, P, bb, cd) for x in idx[4]]
        if kind == "Range" and len(parts) == 2:
            return entails(b, bb, cd, P, _lin_add(parts[1], parts[0], -1)) and entails(b, bb, cd, P, _lin_add(bl, parts[1], -1))
        if kind in ("RangeTo", "RangeFrom") and len(parts) == 1:
            return entails(b, bb, cd, P, _lin_add(bl, parts[0], -1))
        if kind == "RangeInclusive":
            return False if len(parts) != 2 else (entails(b, bb, cd, P, _lin_add(_lin_add(bl, parts[1], -1), ({}, 1), -1)))
        return False
    if idx[0] == "agg":
        return False
    i_ = lin(b, idx, P, bb, cd)
    return entails(b, bb, cd, P, _lin_add(_lin_add(bl, i_, -1), ({}, 1), -1))


def index_guarded(b, bb, base, idx, cd, P):
    pi = P.of(idx, "usize") if idx[0] != "agg" else None
    need = None
    if idx[0] == "const":
        need = idx[1] + 1
    elif idx[0] == "agg" and idx[4]:
        # a range: start constant
        st = idx[4][0]
        if st[0] == "const":
            need = st[1]
    if need is None:
        # symbolic index / range: a dominating guard compares the (end) index with the slice's own length
        from flow import dom_guards, cond_truth

        def is_len_of_base(t_):
            t_ = strip_refs(t_)
            while t_[0] == "cast":
                t_ = strip_refs(t_[1])
            return (t_[0] in ("call", "un") and (t_[1].rsplit("::", 1)[-1] == "len" or t_[1] == "PtrMetadata") and any(y == base for y in walk(t_)))

        def unwiden(t_):
            """strip casts / From conversions that cannot lose bits"""
            while True:
                t_ = strip_refs(t_)
                if t_[0] == "cast" and BITS.get(t_[2], 0) >= BITS.get(t_[3], 65) and str(t_[2])[0] == str(t_[3])[0:1]:
                    t_ = t_[1]
                elif t_[0] == "cast" and t_[2] in ("usize", "u64") and t_[3] in ("usize", "u64", "u32", "u16", "u8"):
                    t_ = t_[1]
                elif t_[0] == "call" and t_[1].endswith("::from") and len(t_[2]) == 1 and "convert::From<u" in t_[1]:
                    t_ = t_[2][0]
                else:
                    return norm(t_)

        def bounded(x, strict):
            """a dominating guard establishes x < len (strict) or x <= len"""
            nx = unwiden(x)
            for (a_, s_, c_) in dom_guards(b, bb, cd):
                ct = cond_truth(c_)
                if not ct or ct[0][0] != "bin" or ct[0][1] not in ("Lt", "Le", "Gt", "Ge"):
                    continue
                op, l_, r_ = ct[0][1], ct[0][2], ct[0][3]
                if not ct[1]:
                    op = {"Lt": "Ge", "Le": "Gt", "Gt": "Le", "Ge": "Lt"}[op]
                if is_len_of_base(l_) and unwiden(r_) == nx:      # len OP x  ->  x OP' len
                    op = {"Lt": "Gt", "Le": "Ge", "Gt": "Lt", "Ge": "Le"}[op]
                elif not (is_len_of_base(r_) and unwiden(l_) == nx):
                    continue
                if op == "Lt" or (op == "Le" and not strict):
                    return True
            return False
        if idx[0] == "agg" and idx[2] and idx[2].startswith("std::ops::Range") and idx[4]:
            kind = idx[2].rsplit("::", 1)[-1]
            if kind == "Range" and len(idx[4]) == 2:
                st, en = idx[4]
                ust = unwiden(st)
                ordered = (st[0] == "const" and st[1] == 0) or any(
                    (x[0] == "call" and x[1].rsplit("::", 1)[-1] in ("checked_add", "saturating_add") and x[2] and unwiden(x[2][0]) == ust) or
                    (x[0] == "bin" and x[1].startswith("Add") and (unwiden(x[2]) == ust or unwiden(x[3]) == ust)) for x in walk(en))
                return ordered and bounded(en, False)
            if kind == "RangeTo" and len(idx[4]) == 1:
                return bounded(idx[4][0], False)
            if kind == "RangeFrom" and len(idx[4]) == 1:
                return bounded(idx[4][0], False)
            return False
        if idx[0] != "agg":
            return bounded(idx, True)
        return False
    for bi in range(len(b.blocks)):
        if not b.dominates(bi, bb) or bi == bb:
            continue
        t = b.blocks[bi]["term"]
        if t["k"] == "switch":
            d = b.term_of_operand(t["d"])
            if d[0] == "bin" and d[1] in ("Lt", "Le", "Gt", "Ge"):
                for side, other in ((d[2], d[3]), (d[3], d[2])):
                    is_len = any(x[0] in ("call", "un") and (x[1].rsplit("::", 1)[-1] == "len" or x[1] == "PtrMetadata") and any(y == base for y in walk(x)) for x in walk(side))
                    if is_len and other[0] == "const" and other[1] >= need:
                        return True
    return False


def loop_cond(b, lp):
    t = b.blocks[lp["head"]]["term"]
    for bb in [lp["head"]] + [s for s in b.succs(lp["head"]) if s in lp["blocks"]]:
        t = b.blocks[bb]["term"]
        if t["k"] == "switch":
            return b.term_of_operand(t["d"])
    return ("other", "?")


PROGRESS = re.compile(r"(FnMut::call_mut$)|(::read_\w+$)|(::skip$)|(::seek$)|(::write_\w+$)|(::push$)|(::next$)|(EncodedStringReader>::)|(::from_stream$)|(::pop$)|(::remove$)")


def loop_progress(b, lp):
    """Every cycle head -> ... -> head passes a block whose call advances a stream (or can exit with an
    error), or assigns a local read by the loop condition."""
    blocks = lp["blocks"]
    head = lp["head"]
    cond = loop_cond(b, lp)
    cond_locals = set(x[1] for x in walk(cond) if x[0] == "var")
    prog = set()
    for bb in blocks:
        t = b.blocks[bb]["term"]
        if t["k"] == "call":
            nm = callee_names(t)[1] or callee_names(t)[0] or ""
            if PROGRESS.search(nm):
                # skip(0) / seek(Current(0)) move nothing
                still = False
                if nm.endswith("::skip") and len(t["args"]) > 1:
                    a = b.term_of_operand(t["args"][1])
                    still = a[0] == "const" and a[1] == 0
                if not still:
                    prog.add(bb)
        for s in b.blocks[bb]["stmts"]:
            if s["k"] == "assign" and not s["lhs"]["p"] and s["lhs"]["l"] in cond_locals:
                prog.add(bb)
        if t["k"] == "assert" and t["msg"]["kind"] == "Overflow":
            # counter increments such as `x += 1` on a condition variable
            pass
    # can we go from head back to head avoiding all progress blocks?  Path-sensitively first (a helper expanded
    # in place returns `Ok(None)` on the path that ends the loop: that path never takes the `Some` arm) ...
    from flow import enum_paths, PathLimit
    try:
        paths = enum_paths(b, max_paths=3000, start=head)
        cyc = [p for p in paths if p.end == "loop" and getattr(p, "loop_to", None) == head and all(x in blocks for x in p.blocks)]
        return not any(not (set(p.blocks) & prog) for p in cyc)
    except (PathLimit, RecursionError):
        pass
    # ... else on the plain graph
    seen = set()
    st = [s for s in b.succs(head) if s in blocks]
    while st:
        x = st.pop()
        if x in seen or x in prog:
            continue
        if x == head:
            return False
        seen.add(x)
        st.extend(s for s in b.succs(x) if s in blocks)
    return True
