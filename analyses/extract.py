"""Fact extraction: snapshot /repo, run the rustc_private driver under cargo +nightly check,
cache the JSON by content hash.  Never runs cargo inside /repo (nightly cargo would rewrite
Cargo.lock) and never executes mila code."""
import fcntl
import hashlib
import os
import shutil
import subprocess
import sys
import tempfile
import time

VERIF = os.path.dirname(os.path.dirname(os.path.abspath(__file__)))
REPO = os.environ.get("MILA_REPO", "/repo")
DRIVER = os.path.join(VERIF, "driver", "target", "release", "mila-facts")
CACHE = os.path.join(VERIF, ".cache")
MIN_BODIES = 350  # today: 382 non-test fn/closure bodies


class ExtractError(Exception):
    pass


def ensure_driver():
    if not os.path.exists(DRIVER):
        r = subprocess.run([os.path.join(VERIF, "setup.sh")], stdout=subprocess.PIPE, stderr=subprocess.STDOUT)
        if r.returncode != 0 or not os.path.exists(DRIVER):
            raise ExtractError("driver build failed:\n" + r.stdout.decode(errors="replace")[-3000:])


def tree_hash(repo, extra=""):
    h = hashlib.sha256()
    files = []
    for root, dirs, fs in os.walk(os.path.join(repo, "src")):
        dirs.sort()
        for f in sorted(fs):
            files.append(os.path.join(root, f))
    for f in ("Cargo.toml", "Cargo.lock"):
        files.append(os.path.join(repo, f))
    for f in files:
        h.update(os.path.relpath(f, repo).encode())
        h.update(b"\0")
        with open(f, "rb") as fh:
            h.update(fh.read())
        h.update(b"\0")
    with open(DRIVER, "rb") as fh:
        h.update(hashlib.sha256(fh.read()).digest())
    h.update(extra.encode())
    return h.hexdigest()[:32]


def src_hash(repo):
    """Hash of the analysed sources alone (src/**, Cargo.toml, Cargo.lock)."""
    h = hashlib.sha256()
    files = []
    for root, dirs, fs in os.walk(os.path.join(repo, "src")):
        dirs.sort()
        for f in sorted(fs):
            files.append(os.path.join(root, f))
    for f in ("Cargo.toml", "Cargo.lock"):
        files.append(os.path.join(repo, f))
    for f in files:
        h.update(os.path.relpath(f, repo).encode())
        h.update(b"\0")
        with open(f, "rb") as fh:
            h.update(fh.read())
        h.update(b"\0")
    return h.hexdigest()[:32]


def sysroot():
    return subprocess.check_output(["rustc", "+nightly", "--print", "sysroot"]).decode().strip()


def extract(repo=None, profile="dev", crates=("mila",), with_deps=False):
    """Returns {crate: path to facts json}.  profile: 'dev' (overflow checks on) or 'nochecks'."""
    repo = repo or REPO
    ensure_driver()
    key = tree_hash(repo, profile + "," + ",".join(crates) + ("+deps" if with_deps else ""))
    cdir = os.path.join(CACHE, key)
    os.makedirs(CACHE, exist_ok=True)
    lock = open(os.path.join(CACHE, ".lock-" + key), "w")   # one lock per content hash: different trees extract in parallel
    fcntl.flock(lock, fcntl.LOCK_EX)
    try:
        want = {c: os.path.join(cdir, c.replace("-", "_") + ".json") for c in crates}
        if all(os.path.exists(p) for p in want.values()):
            return want
        tmp = tempfile.mkdtemp(prefix="mila-facts-")
        try:
            snap = os.path.join(tmp, "snap")
            os.makedirs(snap)
            shutil.copytree(os.path.join(repo, "src"), os.path.join(snap, "src"))
            for f in ("Cargo.toml", "Cargo.lock"):
                shutil.copy(os.path.join(repo, f), os.path.join(snap, f))
            out = os.path.join(tmp, "out")
            os.makedirs(out)
            env = dict(os.environ)
            env["LD_LIBRARY_PATH"] = os.path.join(sysroot(), "lib") + ":" + env.get("LD_LIBRARY_PATH", "")
            flags = "-Zmir-opt-level=0 -Awarnings"
            if profile == "nochecks":
                flags += " -C overflow-checks=off -C debug-assertions=off"
            env["RUSTFLAGS"] = flags
            env["CARGO_NET_OFFLINE"] = "true"
            env["CARGO_TARGET_DIR"] = os.path.join(tmp, "target")
            env["MILA_FACTS_OUT"] = out
            env["MILA_FACTS_CRATES"] = ",".join(crates)
            env.pop("RUSTC_WRAPPER", None)
            env.pop("RUSTC_WORKSPACE_WRAPPER", None)
            if with_deps:
                env["RUSTC_WRAPPER"] = DRIVER
            else:
                env["RUSTC_WORKSPACE_WRAPPER"] = DRIVER
            t0 = time.time()
            r = subprocess.run(["cargo", "+nightly", "check", "--offline", "--lib"], cwd=snap, env=env,
                               stdout=subprocess.PIPE, stderr=subprocess.STDOUT)
            if r.returncode != 0:
                raise ExtractError("cargo check failed on the snapshot of %s:\n%s" % (repo, r.stdout.decode(errors="replace")[-4000:]))
            os.makedirs(cdir, exist_ok=True)
            for c, p in want.items():
                src = os.path.join(out, c.replace("-", "_") + ".json")
                if not os.path.exists(src):
                    raise ExtractError("driver wrote no facts for crate %s (wrapper skipped?)" % c)
                shutil.move(src, p)
            with open(os.path.join(cdir, "meta.txt"), "w") as f:
                f.write("extracted in %.1fs profile=%s\n" % (time.time() - t0, profile))
        finally:
            shutil.rmtree(tmp, ignore_errors=True)
        prune()
        return want
    finally:
        fcntl.flock(lock, fcntl.LOCK_UN)
        lock.close()


def prune(keep=700):
    try:
        ds = [os.path.join(CACHE, d) for d in os.listdir(CACHE) if os.path.isdir(os.path.join(CACHE, d))]
        ds.sort(key=lambda d: os.path.getmtime(d), reverse=True)
        for d in ds[keep:]:
            shutil.rmtree(d, ignore_errors=True)
        for f in os.listdir(CACHE):
            if f.startswith(".lock-") and not os.path.isdir(os.path.join(CACHE, f[6:])):
                try:
                    os.unlink(os.path.join(CACHE, f))
                except OSError:
                    pass
    except OSError:
        pass


if __name__ == "__main__":
    print(extract(sys.argv[1] if len(sys.argv) > 1 else None))
