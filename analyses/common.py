"""Report object shared by all property modules."""
import json
import os


class Inconclusive(Exception):
    def __init__(self, rule, reason):
        Exception.__init__(self, "%s: %s" % (rule, reason))
        self.rule = rule
        self.reason = reason


class Report:
    def __init__(self, pid):
        self.pid = pid
        self.rules = {}          # rule -> {"instances": n, "floor": n, "ok": n, "desc": str}
        self.violations = []     # dicts: key, rule, fn, msg, where
        self.inconclusive = []   # dicts: rule, reason
        self.info = []           # free text notes
        self.samples = []        # decision tables / witnessed instances (for evidence)
        self.assumptions = []
        self.counts = {}

    def rule(self, rid, desc, floor=0):
        self.rules.setdefault(rid, {"desc": desc, "floor": floor, "instances": 0, "ok": 0})
        return rid

    def ok(self, rid, what=None):
        r = self.rules[rid]
        r["instances"] += 1
        r["ok"] += 1
        if what is not None and len(self.samples) < 400:
            self.samples.append({"rule": rid, "instance": what})

    def violation(self, rid, fn, descriptor, msg, where=None):
        r = self.rules[rid]
        r["instances"] += 1
        key = "%s|%s|%s" % (rid, fn, descriptor)
        self.violations.append({"key": key, "rule": rid, "fn": fn, "msg": msg, "where": where})

    def inconc(self, rid, reason):
        d = {"rule": rid, "reason": reason}
        if d not in self.inconclusive:
            self.inconclusive.append(d)

    def note(self, s):
        self.info.append(s)

    def count(self, k, n=1):
        self.counts[k] = self.counts.get(k, 0) + n

    def finish_floors(self):
        """Fail closed when a rule matched fewer instances than were confirmed by hand."""
        for rid, r in self.rules.items():
            if r["instances"] < r["floor"]:
                self.inconc(rid, "matched %d instance(s), floor is %d: an anchor or idiom is no longer recognised" % (r["instances"], r["floor"]))


def load_known(path):
    if not os.path.exists(path):
        return {"known": [], "fixed": []}
    with open(path) as f:
        return json.load(f)
