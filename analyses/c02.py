"""C02 — bin archive serialization is canonical, deterministic and byte-stable."""
from mir import fmt, walk, strip_refs, callee_names, norm
from flow import enum_paths, PathLimit, guards, dom_guards, fmt_cond, control_deps
from binser import (expand_len_locals, for_loops, sort_calls, hash_order_source, root_of, rpo_index, mutations_of, affine, fmt_affine,
                    len_atom, enclosing_loops)
from c04 import is_err_term

EXPLANATION = ("Iteration-order taint: every sequence in serialize/get_labels/all_labels whose order comes from a "
               "HashMap iteration passes a total (key-comparing, stable) sort that dominates its consumption; "
               "sort keys and directions equal the canonical order per endianness; phase order of the emission "
               "loops and of the final image; interning is lookup-before-insert; the string-pointer grouping map "
               "is insertion ordered. Byte equality with an independent writer is not decided.")
ASSUMPTIONS = ["slice::sort_by is stable; HashMap keys are unique", "c-string ordering is outside C02 (c-strings excluded by its quantifier)"]

BA = "mila::bin_archive::BinArchive"


def collected_from(nv, root):
    """If local `root` is a Vec collected from an iteration over self.<field>, return (field, term)."""
    if not root or root[0] != "local":
        return None, None
    ds = nv.defs().get(root[1], [])
    if len(ds) != 1:
        return None, None
    d = nv.definition(root[1])
    fld = None
    for x in walk(d):
        if x[0] == "field" and strip_refs(x[1])[0] == "param" and strip_refs(x[1])[1] == 1:
            fld = x[2]
    return fld, d


ORDERED = ("std::collections::BTreeMap<", "std::collections::BTreeSet<", "std::collections::BinaryHeap<")


def ordered_locals(nv):
    """Locals whose type is a self-ordering std container (an ordering mechanism other than a sort call)."""
    return [l for l in range(len(nv.raw["locals"])) if any(o in (nv.local_ty(l) or "") for o in ORDERED)]


def container_order(nv, root):
    """If `root` is itself a BTreeMap collected straight from a map iteration, its iteration order is by key."""
    if not root or root[0] != "local":
        return None
    ty = nv.local_ty(root[1]) or ""
    if not ty.startswith("std::collections::BTreeMap<"):
        return None
    fld, d = collected_from(nv, root)
    top = strip_refs(d) if d is not None else None
    if top is None or top[0] != "call" or top[1].rsplit("::", 1)[-1] not in ("collect", "from_iter"):
        return None
    inner = strip_refs(top[2][0]) if top[2] else None
    # only the plain `map.iter()` / `map.iter().map(copy)` shapes: (key, value) pairs unchanged
    if inner is not None and inner[0] == "call" and inner[1].rsplit("::", 1)[-1] == "iter":
        return [{"path": [0], "dir": "asc", "via": False}]
    return None


def run(facts, rep, ctx):
    R1 = rep.rule("R02.1", "every hash-ordered sequence is totally sorted (by its unique map key, stable) before it is consumed", floor=6)
    R2 = rep.rule("R02.2", "sort keys/directions: pointers by source asc; labels by address (little) / by name then address (big); strings by cell address asc; cells of one string asc", floor=5)
    R3 = rep.rule("R02.3", "phase order: internal pointers < labels < strings < string pointers; image = header(4 words), data, pool, pointers, labels, text", floor=2)
    R4 = rep.rule("R02.4", "string interning is lookup-before-insert: a hit appends nothing, a miss records the offset taken before appending", floor=1)
    R5 = rep.rule("R02.5", "the string-pointer grouping map is insertion-ordered", floor=1)
    ser = facts.body(BA + "::serialize")
    if ser is None or not ser.pub:
        rep.inconc(R1, "anchor BinArchive::serialize missing")
        return
    for name in ("serialize", "get_labels", "all_labels"):
        b = facts.body(BA + "::" + name)
        if b is None:
            rep.inconc(R1, "anchor %s missing" % name)
            continue
        taint_rule(facts, rep, R1, b, everything=(name == "serialize"))
    R6 = rep.rule("R02.6", "every integer serialize writes uses the archive's endianness (no fixed-order conversions)", floor=2)
    endian_rule(facts, rep, R6, ser)
    sort_spec_rule(facts, rep, R2, ser)
    phase_rule(facts, rep, R3, R5, ser)
    intern_rule(facts, rep, R4, ser)
    # header totals and the string-pointer origin are computed from the bytes actually written (layout arithmetic
    # shared with C01-R01.1: the image is canonical only if its own offsets agree with its sections)
    R8 = rep.rule("R02.8", "text origin / header totals are taken from the sections as they are written", floor=1)
    try:
        import c01
        from common import Report as _Rep
        sub1 = _Rep("C01")
        c01.run(facts, sub1, ctx)
        mine = [v for v in sub1.violations if v["rule"] == "R01.1"]
        for v in mine:
            rep.violation(R8, v["fn"], v["key"].split("|", 2)[-1], v["msg"], v["where"])
        if not mine and sub1.rules.get("R01.1", {}).get("ok"):
            rep.ok(R8, {"layout": "text origin over the written sections (C01-R01.1 holds)"})
        elif not mine:
            rep.inconc(R8, "layout arithmetic of serialize not decided (see C01-R01.1)")
    except Exception as e_:
        rep.inconc(R8, "layout arithmetic not evaluated: %s" % e_)
    # parse -> re-serialize reproduces a canonical file only if the parser sorts every table entry into the kind the
    # writer emitted it as: an internal pointer may point anywhere in [0, data size], a string pointer beyond it
    R7 = rep.rule("R02.7", "the parser takes a pointer-table entry for a string pointer exactly when its value exceeds the data size", floor=1)
    rd = facts.body(BA + "::from_bytes")
    if rd is None or not rd.pub:
        rep.inconc(R7, "anchor BinArchive::from_bytes missing")
    else:
        import c01
        from common import Report
        sub = Report(rep.pid)
        sub.rules = {k: dict(v) for k, v in rep.rules.items()}
        rm = c01.reader_model(facts, sub, R7, rd)
        if rm is not None and rm.get("pointer_entry_dropped"):
            rep.violation(R7, rd.name, "pointer-entry-dropped", "a pointer-table entry can be skipped by the parser (under [%s]) although the writer emits it: parsing and re-serializing a canonical file loses that entry" % rm["pointer_entry_dropped"], "%s:%s" % (rd.file, rd.line))
        if rm is None or rm.get("classify") is None:
            rep.inconc(R7, "the test that separates string entries from internal pointers was not recognised")
        elif rm["classify"] == "gt-data-size":
            rep.ok(R7, {"classification": "value > data size => string pointer"})
        else:
            rep.violation(R7, rd.name, "classification", "pointer entries are classified by %s (canonical files hold internal pointers with any destination up to and including the data size)" % rm["classify"], "%s:%s" % (rd.file, rd.line))


    # parse -> re-serialize: what the parser hands to the archive's adders is what serialize later emits
    R9 = rep.rule("R02.9", "the adders the parser stores its strings, pointers and labels through keep every payload (shared adder contract)", floor=1)
    if rd is not None:
        import annot
        called = sorted({nm for nm in annot.ADDERS if nm != "write_c_string" and any(
            (f_.get("res") or f_.get("def") or "").endswith("BinArchive::" + nm)
            for f_ in facts.callees(rd))})
        if called:
            annot.contract(facts, rep, R9, tuple(called))
        else:
            rep.ok(R9, {"parser_stores": "directly into the archive's maps"})


def total_for(spec, stable, key_paths):
    """Is the sort total up to deterministic ties?  True when it compares whole elements, or one of its
    components is the (unique) map key and, if further ties remain, the sort is stable."""
    if spec is None:
        return False
    for c in spec:
        if c["path"] == []:
            return True
        if c["path"] in key_paths:
            return stable or c is spec[-1]
    return False


def taint_rule(facts, rep, R1, b, everything):
    nv = b.named_view()
    loops = for_loops(nv)
    sorts = sort_calls(nv)
    idx = rpo_index(nv)
    for lp in loops:
        if lp["kind"] != "for" or lp["src"] is None:
            continue
        src = lp["src"]
        root = lp["src_root"]
        where = "%s:%s" % (b.file, nv.blocks[lp["next_bb"]]["term"]["line"])
        direct = hash_order_source(src)
        if direct is not None and not (root and root[0] == "local" and collected_from(nv, root)[1] is not None and False):
            # loop directly over a hash map: its effects must be re-sorted before leaving
            targets = set()
            for bb in lp["blocks"]:
                t = nv.blocks[bb]["term"]
                if t["k"] == "call" and t["args"]:
                    a0 = nv.term_of_operand(t["args"][0])
                    nm = (callee_names(t)[1] or callee_names(t)[0] or "").rsplit("::", 1)[-1]
                    if a0[0] == "ref" and a0[2] and nm in ("push", "insert", "extend", "push_str", "write_all", "write_u32", "extend_from_slice"):
                        r = root_of(a0)
                        if r:
                            targets.add(r)
            ok = bool(targets)
            why = ""
            for tg in targets:
                later = [s for s in sorts if s["target"] == tg and s["bb"] not in lp["blocks"] and idx.get(s["bb"], 0) > idx.get(lp["head"], 0)]
                if not later:
                    ok = False
                    why = "container %s filled in hash order is never sorted afterwards" % fmt(tg)
                    continue
                s = later[-1]
                # pushed elements: tuple whose component on the spec path is the map key
                if not total_for(s["spec"], s["stable"], [[0]]):
                    ok = False
                    why = "container %s is sorted by %s, which does not include the map key" % (fmt(tg), s["spec"])
            if not targets:
                # a hash-ordered loop with no accumulating effect we understand
                if everything:
                    rep.violation(R1, b.name, "hash-loop:%s" % fmt(norm(direct))[:60], "loop iterates %s in hash order" % fmt(norm(direct))[:80], where)
                continue
            if ok:
                rep.ok(R1, {"fn": b.name, "loop_over": fmt(norm(direct))[:60], "resorted": True})
            else:
                rep.violation(R1, b.name, "hash-loop:%s" % fmt(norm(direct))[:60], "%s: %s" % (b.name.rsplit("::", 1)[-1], why), where)
            continue
        # loop over a local collection: is that collection built from a hash iteration?
        if root and root[0] == "local":
            fld, d = collected_from(nv, root)
            if d is None:
                continue
            h = hash_order_source(d)
            if h is None:
                continue
            top = strip_refs(d)
            if not (top[0] == "call" and top[1].rsplit("::", 1)[-1] in ("collect", "from_iter", "to_vec", "into_vec")):
                continue  # an element taken out of an iteration, not a sequence in hash order
            dom = [s for s in sorts if s["target"] == root and nv.dominates(s["bb"], lp["head"])]
            # all sorts that may apply (e.g. one per endianness): every path to the loop must pass one
            if not dom:
                # sorts on alternative branches: accept when the set of sort blocks jointly covers all
                # paths, i.e. the loop head is not reachable from entry avoiding them
                alts = [s for s in sorts if s["target"] == root and idx.get(s["bb"], 0) < idx.get(lp["head"], 1 << 30)]
                if alts and lp["head"] not in nv.reachable_blocks(0, avoid=set(s["bb"] for s in alts)):
                    dom = alts
            if not dom:
                cspec = container_order(nv, root)
                if cspec is not None:
                    rep.ok(R1, {"fn": b.name, "seq": "self." + str(fld), "sort": "BTreeMap keyed by the map key"})
                elif ordered_locals(nv):
                    rep.inconc(R1, "the sequence collected from self.%s passes through an ordered container instead of a sort; its order is not decided" % fld)
                else:
                    rep.violation(R1, b.name, "unsorted:" + str(fld), "the sequence collected from self.%s (hash order) is consumed without a dominating sort" % fld, where)
                continue
            bad = [s for s in dom if not total_for(s["spec"], s["stable"], [[0]])]
            if fld == "cstrings":
                rep.note("c-string order: %s (outside C02)" % [s["spec"] for s in dom])
                rep.ok(R1, {"fn": b.name, "seq": "self." + str(fld), "note": "c-strings are outside C02's quantifier"})
                continue
            if bad and any(s["spec"] is None for s in bad):
                rep.inconc(R1, "the comparator sorting the sequence collected from self.%s is not understood" % fld)
            elif bad:
                s = bad[0]
                rep.violation(R1, b.name, "partial-sort:" + str(fld),
                              "the sequence collected from self.%s is sorted by %s only: entries that tie keep their hash-iteration order, so the image depends on the hash seed" % (fld, spec_str(s["spec"])),
                              "%s:%s" % (b.file, s["line"]))
            else:
                for s in dom:
                    rep.ok(R1, {"fn": b.name, "seq": "self." + str(fld), "sort": spec_str(s["spec"])})


def spec_str(spec):
    if spec is None:
        return "an unrecognised comparator"
    return ", then ".join("%s %s%s" % ("element" if not c["path"] else "field " + ".".join(map(str, c["path"])), c["dir"], " (through a call)" if c["via"] else "") for c in spec)


def sort_spec_rule(facts, rep, R2, ser):
    nv = ser.named_view()
    sorts = sort_calls(nv)
    cd = control_deps(nv)
    seen = set()
    for s in sorts:
        root = s["target"]
        fld, d = collected_from(nv, root) if root and root[0] == "local" else (None, None)
        where = "%s:%s" % (ser.file, s["line"])
        if fld is None:
            # sort of the cells of one string: whole-element ascending
            if s["spec"] == [{"path": [], "dir": "asc", "via": False}]:
                if "cells" not in seen:
                    rep.ok(R2, {"sort": "cells of one string", "spec": "element asc"})
                    seen.add("cells")
            else:
                rep.violation(R2, ser.name, "cells-sort", "a per-string cell list is sorted by %s (specified: ascending)" % spec_str(s["spec"]), where)
            continue
        g = dom_guards(nv, s["bb"], cd)
        endian = None
        for (a, succ, c) in g:
            term, vals, neg, dty = c
            if term[0] == "discr" and strip_refs(term[1])[0] == "field" and strip_refs(term[1])[2] == "endian":
                adt = facts.adts.get("mila::endian_aware_io::Endian")
                names = {v["discr"]: v["name"] for v in adt["variants"]} if adt else {0: "Little", 1: "Big"}
                hit = set(names.get(v) for v in vals)
                allv = set(names.values())
                sel = allv - hit if neg else hit
                if len(sel) == 1:
                    endian = list(sel)[0]
        spec = s["spec"]
        if spec is None:
            rep.inconc(R2, "comparator of the sort on self.%s not understood" % fld)
            continue
        first = spec[0]
        key = fld + (":" + endian if endian else "")
        if fld == "pointers":
            good = first["path"] == [0] and first["dir"] == "asc"
            want = "by source address ascending"
        elif fld == "text":
            good = first["path"] == [0] and first["dir"] == "asc"
            want = "by cell address ascending"
        elif fld == "labels":
            if endian == "Big":
                good = first["path"] == [1] and first["dir"] == "asc" and all(c["dir"] == "asc" for c in spec)
                want = "by name ascending (ties by address ascending)"
            elif endian == "Little":
                good = first["path"] == [0] and first["dir"] == "asc"
                want = "by address ascending"
            else:
                rep.inconc(R2, "label sort is not selected by the archive's endianness")
                continue
        elif fld == "cstrings":
            continue
        else:
            continue
        seen.add(key)
        if good:
            rep.ok(R2, {"seq": key, "spec": spec_str(spec)})
        else:
            rep.violation(R2, ser.name, "order:" + key, "self.%s%s is sorted %s; canonical order is %s" % (fld, " (%s-endian)" % endian if endian else "", spec_str(spec), want), where)
    unknown_sorts = [s for s in sorts if s["spec"] is None]
    # a BTreeMap collected straight from self.<field>.iter() orders by the map key
    for lp in for_loops(nv):
        if lp["kind"] == "for" and lp["src_root"] and container_order(nv, lp["src_root"]) is not None:
            fld = collected_from(nv, lp["src_root"])[0]
            if fld in ("pointers", "text") and fld not in seen:
                seen.add(fld)
                rep.ok(R2, {"seq": fld, "spec": "BTreeMap keyed by the cell address"})
    if ordered_locals(nv):
        unknown_sorts = unknown_sorts or [None]
    for need in ("pointers", "text", "labels:Big", "labels:Little"):
        if need not in seen and unknown_sorts:
            rep.inconc(R2, "no recognised sort for %s (a sort with a comparator that is not understood is present)" % need)
        elif need not in seen:
            rep.violation(R2, ser.name, "missing-sort:" + need, "no sort found for %s" % need, "%s:%s" % (ser.file, ser.line))


def phase_rule(facts, rep, R3, R5, ser):
    nv = ser.named_view()
    loops = for_loops(nv)
    idx = rpo_index(nv)
    order = []
    group_loop = None
    for lp in sorted(loops, key=lambda l: idx.get(l["head"], 0)):
        if lp["kind"] != "for" or not lp["src_root"] or lp["src_root"][0] != "local":
            continue
        if len(enclosing_loops(loops, lp["head"])) > 1:
            continue  # nested
        fld, d = collected_from(nv, lp["src_root"])
        if fld in ("pointers", "labels", "text", "cstrings"):
            order.append((fld, lp))
        else:
            ty = nv.local_ty(lp["src_root"][1])
            order.append((("local:" + ty), lp))
    names = [o[0] for o in order]
    core = [n for n in names if n in ("pointers", "labels", "text")]
    where = "%s:%s" % (ser.file, ser.line)
    if sorted(set(core)) != ["labels", "pointers", "text"]:
        rep.inconc(R3, "emission loops recognised: %s (of %s); the internal-pointer, label and string loops are not all identified" % (core, names))
    elif core != ["pointers", "labels", "text"]:
        rep.violation(R3, ser.name, "phase-order", "emission loops run in the order %s; canonical: internal pointers, labels, strings" % core, where)
    else:
        # each must dominate the next (no conditional skipping)
        heads = [lp["head"] for n, lp in order if n in ("pointers", "labels", "text")]
        if all(nv.dominates(heads[i], heads[i + 1]) for i in range(2)):
            rep.ok(R3, {"loops": core})
        else:
            rep.violation(R3, ser.name, "phase-dominance", "an emission loop can be skipped", where)
    # grouping map: the loop after the text loop iterating a local map
    after_text = False
    for n, lp in order:
        if n == "text":
            after_text = True
            continue
        if after_text and n.startswith("local:"):
            ty = n[6:]
            # it must be the container filled inside the text loop
            group_loop = lp
            if ty.startswith("indexmap::IndexMap<") or ty.startswith("std::collections::BTreeMap<") or ty.startswith("std::vec::Vec<"):
                rep.ok(R5, {"grouping": ty})
            elif not (ty.startswith("std::collections::HashMap<") or ty.startswith("std::collections::HashSet<")):
                rep.inconc(R5, "string pointers are emitted by iterating a %s whose iteration order is not known to this check" % ty)
            else:
                rep.violation(R5, ser.name, "grouping-type", "string pointers are emitted by iterating a %s: order depends on the hash seed" % ty, "%s:%s" % (ser.file, nv.blocks[lp["next_bb"]]["term"]["line"]))
            break
    if group_loop is None:
        rep.inconc(R5, "string-pointer emission loop not found")

    # final image: calls on the output cursor in dominance order
    paths = None
    out_root = None
    try:
        for p in enum_paths(ser):
            if p.end == "ret" and is_err_term(p.ret) is False:
                paths = p
    except PathLimit:
        pass
    # the returned buffer
    for bi, si, s in nv.stmts():
        if s["k"] == "assign" and s["lhs"]["l"] == 0 and not s["lhs"]["p"] and s["rv"]["k"] == "agg" and s["rv"].get("variant") == "Ok":
            t = nv.term_of_operand(s["rv"]["fields"][0])
            out_root = root_of(t)
    if out_root is None:
        rep.inconc(R3, "returned buffer not identified")
        return
    # the cursor over it
    cur = None
    for l in range(len(nv.locals)):
        if nv.is_atom(l) and nv.local_ty(l).startswith("std::io::Cursor<"):
            d = nv.definition(l)
            if root_of(d[2][0] if d[0] == "call" and d[2] else d) == out_root:
                cur = l
    if cur is None:
        rep.inconc(R3, "output cursor not identified")
        return
    evs = []
    for bb, t in nv.calls():
        if not t["args"]:
            continue
        a0 = nv.term_of_operand(t["args"][0])
        r = root_of(a0)
        if r and r[0] == "local" and r[1] == cur:
            nm = (callee_names(t)[1] or callee_names(t)[0] or "").rsplit("::", 1)[-1]
            evs.append((idx.get(bb, 0), bb, nm, [nv.term_of_operand(a) for a in t["args"][1:]]))
    evs.sort()
    seq = []
    words_per_item = {}
    last_loop = None
    for _, bb, nm, args in evs:
        enc = enclosing_loops(loops, bb)
        if nm == "write_u32":
            v = args[0]
            if enc:
                src = enc[0]["src"]
                ch = [x for x in walk(src)] if src else []
                ch = [x for x in ch if x[0] == "call" and x[1].endswith("Iterator::chain") and len(x[2]) == 2]
                arr = None
                r_ = root_of(src) if src else None
                if r_ and r_[0] == "local" and len(nv.defs().get(r_[1], [])) == 1 and not nv.partial_writes().get(r_[1]):
                    d_ = nv.definition(r_[1])
                    if d_[0] == "agg" and d_[1] == "array":
                        arr = d_[4]
                if src:
                    for x in walk(src):
                        if x[0] == "agg" and x[1] == "array" and arr is None:
                            arr = x[4]
                if ch:
                    # one loop over a.chain(b): the two tables back to back
                    seq.append(("loop_u32", root_of(ch[0][2][0])))
                    seq.append(("loop_u32", root_of(ch[0][2][1])))
                elif arr is not None:
                    # `for w in [a, b, c, d] { write_u32(w) }`: the words one after the other
                    for el in arr:
                        seq.append(("u32", affine(el, nv)))
                else:
                    r__ = root_of(src) if src else None
                    if seq and seq[-1][0] == "loop_u32" and seq[-1][1] == r__ and r__ is not None and last_loop == enc[0]["head"]:
                        # a second word per iteration of the same loop: a table of records, not a second table
                        words_per_item[r__] = words_per_item.get(r__, 1) + 1
                    else:
                        seq.append(("loop_u32", r__))
                    last_loop = enc[0]["head"]
            else:
                seq.append(("u32", affine(v, nv)))
        elif nm == "seek":
            v = [x for x in walk(args[0]) if x[0] == "const" and isinstance(x[1], int)]
            seq.append(("seek", v[0][1] if v else None))
        elif nm == "write_all":
            seq.append(("bytes", root_of(args[0])))
    kinds = [s[0] for s in seq]
    want = ["u32", "u32", "u32", "u32", "seek", "bytes", "bytes", "loop_u32", "loop_u32", "bytes"]
    if kinds != want:
        # the same calls in another order / number is a different image; calls of another kind on the cursor are
        # a spelling this rule does not know
        known_kinds = all(nm in ("write_u32", "seek", "write_all", "set_position", "position", "get_ref", "get_mut", "into_inner") for _, bb, nm, args in evs)
        if known_kinds and sorted(kinds) != sorted(want) and not any(nm == "set_position" for _, bb, nm, args in evs):
            rep.violation(R3, ser.name, "image-sequence", "the image is written as %s; canonical: %s" % (kinds, want), where)
        elif known_kinds and sorted(kinds) == sorted(want):
            rep.violation(R3, ser.name, "image-sequence", "the image is written as %s; canonical: %s" % (kinds, want), where)
        else:
            rep.inconc(R3, "image writes not recognised: %s" % kinds)
        return
    # identify sections
    data_sec, pool_sec, ptr_sec, lab_sec, text_sec = seq[5][1], seq[6][1], seq[7][1], seq[8][1], seq[9][1]
    bad = None

    def is_vec_of(root, ty):
        return root and root[0] == "local" and nv.local_ty(root[1]) == ty
    kl = words_per_item.get(lab_sec, 1)   # words written per element of the label table
    lab_ty = "std::vec::Vec<u32>" if kl == 1 else ("std::vec::Vec<(u32, u32)>" if kl == 2 else None)
    if words_per_item.get(ptr_sec, 1) != 1 or lab_ty is None or not is_vec_of(lab_sec, lab_ty):
        rep.inconc(R3, "label/pointer tables are written %s/%s words per element of %s: not one of the recognised layouts" % (
            words_per_item.get(ptr_sec, 1), kl, nv.local_ty(lab_sec[1]) if lab_sec and lab_sec[0] == "local" else lab_sec))
        return
    if not (is_vec_of(pool_sec, "std::vec::Vec<u8>") and is_vec_of(text_sec, "std::vec::Vec<u8>") and is_vec_of(ptr_sec, "std::vec::Vec<u32>")):
        bad = "section buffers have unexpected types"
    # header words
    h = [s[1] for s in seq[:4]]

    h = [expand_len_locals(nv, x) for x in h]

    def lens(a):
        if a is None:
            return None
        return {(len_atom(k) if len_atom(k) else ("?", fmt(k)[:40])): v for k, v in a[0].items()}, a[1]
    h1, h2, h3, h4 = [lens(x) for x in h]
    hdr = seq[4][1]
    # data section may be the clone `data` or self.data – equal lengths
    def same_data(r):
        return r == data_sec or r == ("selffield", "data")
    if h2 is None or h3 is None or h4 is None or h1 is None:
        bad = "a header word is not an affine expression of section lengths"
    else:
        d2, c2 = h2
        ok2 = c2 == 0 and len(d2) == 2 and d2.get(pool_sec) == 1 and any(same_data(k) and v == 1 for k, v in d2.items())
        d3, c3 = h3
        ok3 = c3 == 0 and d3 == {ptr_sec: 1}
        d4, c4 = h4
        ok4 = c4 == 0 and len(d4) == 1 and list(d4.values()) == [1] and list(d4.keys())[0][0] == "?" and "Div" in list(d4.keys())[0][1]
        # label count = len(raw_labels)/2 appears as a ('div', len(x), 2) atom
        a4 = h[3]
        ok4 = False
        if a4 and len(a4[0]) == 1 and a4[1] == 0:
            k = list(a4[0].keys())[0]
            if kl == 1 and k[0] == "div" and k[2] == 2 and len_atom(k[1]) == lab_sec:
                ok4 = True
            if kl == 2 and len_atom(k) == lab_sec and a4[0][k] == 1:
                ok4 = True   # one record per element: the count is the length itself
        d1, c1 = h1
        ok1 = (c1 == hdr and d1.get(pool_sec) == 1 and d1.get(ptr_sec) == 4 and d1.get(lab_sec) == 4 * kl and d1.get(text_sec) == 1
               and any(same_data(k) and v == 1 for k, v in d1.items()) and len(d1) == 5)
        if not ok1:
            bad = "header word 1 (file size) is %s" % fmt_affine(h[0])
        elif not ok2:
            bad = "header word 2 (data size) is %s" % fmt_affine(h[1])
        elif not ok3:
            bad = "header word 3 (pointer count) is %s" % fmt_affine(h[2])
        elif not ok4:
            bad = "header word 4 (label count) is %s" % fmt_affine(h[3])
    if bad:
        rep.violation(R3, ser.name, "image-header", bad, where)
    else:
        rep.ok(R3, {"image": "size,data+pool,pointers,labels/2 | seek %s | data,pool,pointers,labels,text" % hex(hdr)})


def guarded_conversion(facts, body, bb, sh, want_root=1):
    """A raw to_le_bytes / to_be_bytes in `body` is fine when a match on the archive's endianness selects it:
    'ok' (Little -> le, Big -> be), 'bad' (no selection, swapped, or to_ne_bytes), 'unknown' (a selection on
    some other Endian value)."""
    from flow import dom_guards
    adt = facts.adts.get("mila::endian_aware_io::Endian")
    vnames = {v["discr"]: v["name"] for v in adt["variants"]} if adt else {0: "Little", 1: "Big"}
    if sh == "to_ne_bytes":
        return "bad"
    want = "Little" if sh.endswith("le_bytes") else "Big"
    res = None
    for (a, s_, c) in dom_guards(body, bb):
        term, vals, neg, dty = c
        if term[0] != "discr":
            continue
        x = strip_refs(term[1])
        if "Endian" not in str(term[2] if len(term) > 2 else ""):
            continue
        sel = set(vnames.values())
        names = set(vnames[v] for v in vals if v in vnames)
        sel = sel - names if neg else sel & names
        if x[0] == "field" and x[2] == "endian" and strip_refs(x[1])[0] == "param" and strip_refs(x[1])[1] == want_root:
            r = "ok" if sel == {want} else "bad"
        else:
            r = "unknown"
        res = r if res in (None, r) else "unknown"
    return res or "bad"


def endian_rule(facts, rep, R6, ser):
    """Every multi-byte value serialize writes goes through the endian-aware writer with self.endian;
    raw to_le_bytes/to_be_bytes/write_all of integers would pin one byte order."""
    n = 0
    for bb, t in ser.calls():
        nm = callee_names(t)[1] or callee_names(t)[0] or ""
        sh = nm.rsplit("::", 1)[-1]
        where = "%s:%s" % (ser.file, t["line"])
        if sh in ("write_u32", "write_u16") and "EndianAwareWriter" in nm:
            e = strip_refs(ser.term_of_operand(t["args"][-1]))
            if e[0] == "field" and e[2] == "endian" and strip_refs(e[1])[0] == "param":
                n += 1
                rep.ok(R6, {"write": sh, "endian": "self.endian", "line": t["line"]})
            else:
                rep.violation(R6, ser.name, "endian-arg:%s" % fmt(norm(e))[:30], "serialize writes a %s with byte order %s instead of the archive's" % (sh[6:], fmt(e)[:40]), where)
        elif sh in ("to_le_bytes", "to_be_bytes", "to_ne_bytes"):
            verdict = guarded_conversion(facts, ser, bb, sh)
            if verdict == "ok":
                n += 1
                rep.ok(R6, {"write": sh, "endian": "selected by a match on self.endian", "line": t["line"]})
            elif verdict == "unknown":
                rep.inconc(R6, "serialize converts with %s under a byte-order selection that was not recognised (line %s)" % (sh, t["line"]))
            else:
                rep.violation(R6, ser.name, "raw-bytes:" + sh, "serialize converts an integer with %s: the value's byte order no longer follows the archive's endianness" % sh, where)
    if n < 2:
        rep.inconc(R6, "only %d endian-aware writes found in serialize" % n)


def text_appenders_rule(facts, rep, R4, ser, helper):
    """Only the interning helper may append to the text-section buffers passed to it."""
    nv = ser.named_view()
    bufs = set()
    for bb, t in nv.calls():
        if (callee_names(t)[1] or "") == helper.name:
            r = root_of(nv.term_of_operand(t["args"][0]))
            if r and r[0] == "local":
                bufs.add(r[1])
            r2 = root_of(nv.term_of_operand(t["args"][1]))
            if r2 and r2[0] == "local":
                bufs.add(r2[1])
    loops = for_loops(nv)
    for l in sorted(bufs):
        for bb, sh, args, t in mutations_of(nv, l):
            nm = callee_names(t)[1] or ""
            if nm == helper.name:
                continue
            # the 4-byte padding of the c-string pool after its loop is the one accepted direct append
            if sh == "push" and args[1] == ("const", 0, "u8") and not [lp for lp in enclosing_loops(loops, bb) if lp["kind"] == "for"]:
                continue
            if sh == "resize" and len(args) == 3 and args[2] == ("const", 0, "u8") and not [lp for lp in enclosing_loops(loops, bb) if lp["kind"] == "for"]:
                continue       # the same padding in closed form
            rep.violation(R4, ser.name, "direct-append:%s:%s" % (nv.local_name(l), sh),
                          "serialize appends to %s with %s, bypassing the interning helper: a repeated string would be stored twice and earlier offsets overwritten" % (nv.local_name(l), sh),
                          "%s:%s" % (ser.file, t["line"]))


def pairing_rule(facts, rep, R4, ser, helper):
    """The offsets an interning map records are relative to one byte buffer: a map handed to the helper together with
    two different buffers (the c-string pool and the text section) would answer a lookup with an offset into the
    wrong section."""
    nv = ser.named_view()
    pairs = {}
    for bb, t in nv.calls():
        if (callee_names(t)[1] or "") != helper.name or len(t["args"]) < 2:
            continue
        buf = root_of(nv.term_of_operand(t["args"][0]))
        mp = root_of(nv.term_of_operand(t["args"][1]))
        if buf and mp:
            pairs.setdefault(mp, {}).setdefault(buf, t["line"])
    shared = [(mp, bufs) for mp, bufs in pairs.items() if len(bufs) > 1]
    for mp, bufs in shared:
        rep.violation(R4, ser.name, "offset-map-shared:" + str(nv.local_name(mp[1]) if mp[0] == "local" else mp),
                      "the interning map %s is used with %d different buffers (%s): a string already interned into one section is answered with that section's offset when it is needed in the other and is never written there" % (
                          fmt(mp), len(bufs), ", ".join(fmt(b_) for b_ in bufs)), "%s:%s" % (ser.file, sorted(bufs.values())[-1]))
    if pairs and not shared:
        rep.ok(R4, {"fn": ser.name, "interning_maps": len(pairs), "each_paired_with": "one buffer"})


def intern_rule(facts, rep, R4, ser):
    # the interning helper: a local callee taking (&mut Vec<u8>, &mut HashMap<String, usize>, &String)
    cands = set()
    for bb, t in ser.calls():
        n = callee_names(t)
        nm = n[1] or n[0] or ""
        cb = facts.body(nm)
        if cb is not None and cb.argc == 3 and cb.local_ty(1) == "&mut std::vec::Vec<u8>" and cb.local_ty(2).startswith("&mut std::collections::HashMap<std::string::String, usize"):
            cands.add(cb.name)
    if len(cands) != 1:
        rep.inconc(R4, "interning helper not identified among callees of serialize (%s)" % sorted(cands))
        return
    cb = facts.body(list(cands)[0])
    pairing_rule(facts, rep, R4, ser, cb)
    try:
        paths = enum_paths(cb)
    except PathLimit:
        rep.inconc(R4, "interning helper: too many paths")
        return
    bad = None
    hit = miss = 0
    for p in paths:
        look = None
        for (bb, term, vals, neg, dty) in p.conds:
            if term[0] == "discr" and term[1][0] == "call":
                g = term[1]
                while g[0] == "call" and g[1].rsplit("::", 1)[-1] in ("copied", "cloned", "as_ref", "as_deref") and g[2]:
                    g = strip_refs(g[2][0])
                if g[0] == "call" and g[1].endswith("HashMap::<K, V, S, A>::get"):
                    look = (g, (vals == (1,)) != neg)
        if look is None:
            if p.end == "ret" and is_err_term(p.ret) is not True:
                bad = "a path returns without looking the string up"
            continue
        lcall, found = look
        k = strip_refs(lcall[2][1])
        if not (k[0] == "param" and k[1] == 3):
            bad = "looks up %s rather than the string being interned" % fmt(lcall[2][1])
        muts = [e for e in p.events if e["k"] == "call" and e["callee"] and e["args"] and e["args"][0][0] == "ref" and e["args"][0][2]
                and e["callee"].rsplit("::", 1)[-1] in ("extend", "push", "insert", "extend_from_slice", "append")]
        if found:
            hit += 1
            if muts:
                bad = "a hit still appends (%s): the string would be stored twice" % muts[0]["callee"].rsplit("::", 1)[-1]
            r = p.ret
            if not (p.end == "ret" and r[0] == "agg" and r[3] == "Ok" and any(x == lcall for x in walk(r))):
                bad = "a hit does not return the recorded offset"
        else:
            if p.end != "ret" or is_err_term(p.ret) is True:
                continue
            miss += 1
            lens = [i for i, e in enumerate(p.events) if e["k"] == "call" and e["callee"] and e["callee"].endswith("::len") and strip_refs(e["args"][0]) == ("param", 1, cb.local_name(1))]
            apps = [i for i, e in enumerate(p.events) if e in muts and strip_refs(e["args"][0]) == ("param", 1, cb.local_name(1))]
            ins = [e for e in muts if e["callee"].rsplit("::", 1)[-1] == "insert"]
            if not lens or not apps or not ins:
                bad = "a miss does not (measure, append, record)"
                continue
            if min(lens) > min(apps):
                bad = "the offset is measured after the string has been appended"
            off = p.events[min(lens)]["val"]
            if not any(x == off for x in walk(ins[0]["args"][2])):
                bad = "the recorded offset is %s, not the buffer length before appending" % fmt(ins[0]["args"][2])
            if not any(x == off for x in walk(p.ret)):
                bad = "a miss returns %s, not the new offset" % fmt(p.ret)[:60]
            # terminator pushed after the bytes
            pushes = [p.events[i] for i in apps if p.events[i]["callee"].rsplit("::", 1)[-1] == "push"]
            if not pushes or pushes[-1]["args"][1] != ("const", 0, "u8"):
                bad = "the string is not NUL-terminated in the text section"
    if not hit or not miss:
        rep.inconc(R4, "interning helper: hit/miss paths not recognised")
    elif bad:
        rep.violation(R4, cb.name, "intern", bad, "%s:%s" % (cb.file, cb.line))
    else:
        rep.ok(R4, {"fn": cb.name, "hit_paths": hit, "miss_paths": miss})
    text_appenders_rule(facts, rep, R4, ser, cb)
