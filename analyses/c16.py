"""C16 — 3DS arc extraction: record roles, table location, header padding rule, error mapping."""
from mir import fmt, walk, strip_refs, norm, callee_names
from binser import for_loops, enclosing_loops, rpo_index
from flow import enum_paths, PathLimit, cond_truth, dom_guards

EXPLANATION = ("arc::from_bytes has no writer to cross-check; the reference is the record description in the property: "
               "inside the entry loop the stream events are [string, u32, u32, u32]; the body read is positioned from "
               "the third u32 plus the header padding and sized by the second; the loop runs `Count` times from the "
               "`Info` label; padding is 0x60 iff the first word is 0; the three missing-item cases map to their "
               "errors and nothing is unwrapped. That the extracted bytes are right beyond this wiring is not decided.")
ASSUMPTIONS = ["BinArchive / BinArchiveReader behave as decided under C01, C04"]

FN = "mila::arc::from_bytes"
ARC_ENTRY = "mila::arc::ArcEntry"


def run(facts, rep, ctx):
    R1 = rep.rule("R16.1", "record order and roles: [name string, index u32, size u32, offset u32]; seek from the 3rd u32 + padding, byte count from the 2nd, key = name", floor=4)
    R2 = rep.rule("R16.2", "the loop runs `Count` times starting at the `Info` label", floor=2)
    R3 = rep.rule("R16.3", "header padding: first word 0 -> 0x60, otherwise 0", floor=2)
    R4 = rep.rule("R16.4", "error mapping: missing Count / Info / name -> NoCount / NoInfo / MissingName; nothing unwrapped", floor=4)
    b = facts.body(FN)
    if b is None or not b.pub:
        rep.inconc(R1, "anchor arc::from_bytes missing")
        return
    where = "%s:%s" % (b.file, b.line)
    nv = b.named_view()
    idx = rpo_index(nv)
    loops = for_loops(nv)
    # ---- the record loop: the loop containing read_string ------------------------------------------
    rec = None
    for lp in loops:
        if lp["kind"] != "for":
            continue
        calls = [(idx.get(bb, 0), bb, nv.blocks[bb]["term"]) for bb in lp["blocks"] if nv.blocks[bb]["term"]["k"] == "call"]
        names = [(callee_names(t)[1] or "").rsplit("::", 1)[-1] for _, _, t in sorted(calls)]
        if "read_string" in names:
            rec = (lp, sorted(calls))
    if rec is None:
        rep.inconc(R1, "record loop not found")
        return
    lp, calls = rec
    seq = []
    for o, bb, t in calls:
        nm = callee_names(t)[1] or ""
        if nm.startswith("mila::bin_streams::BinArchiveReader") and nm.rsplit("::", 1)[-1].startswith("read_"):
            seq.append((nm.rsplit("::", 1)[-1], bb))
    kinds = [s[0] for s in seq]
    if kinds == ["read_string", "read_u32", "read_u32", "read_u32"]:
        rep.ok(R1, {"record": kinds})
    else:
        rep.violation(R1, b.name, "record-shape", "a record is read as %s (specified: string, u32, u32, u32)" % kinds, where)
        return
    # which ArcEntry field each read feeds
    roles = {}
    for bi, si, s in b.stmts():
        if s["k"] == "assign" and s["rv"]["k"] == "agg" and s["rv"].get("def") == ARC_ENTRY:
            for nme, op in zip(s["rv"]["field_names"], s["rv"]["fields"]):
                t = b.term_of_operand(op)
                for i, (k, bb) in enumerate(seq):
                    if any(x[0] == "call" and len(x) > 3 and x[3] == bb and x[1].endswith(k) for x in walk(t)):
                        roles[i] = (nme, t)
    fields = [roles.get(i, (None,))[0] for i in range(4)]
    # uses: seek(entry.X) and read_bytes(entry.Y)
    seek_f = size_f = key_f = None
    pad_in_addr = False
    for bb, t in b.calls():
        nm = callee_names(t)[1] or ""
        if enclosing_loops(loops, bb) and bb not in lp["blocks"]:
            if nm.endswith("BinArchiveReader::<'a>::seek"):
                fs = [x[2] for x in walk(b.term_of_operand(t["args"][1])) if x[0] == "field" and len(x) > 4 and x[4] == ARC_ENTRY]
                seek_f = fs[0] if fs else None
            if nm.endswith("BinArchiveReader::<'a>::read_bytes"):
                fs = [x[2] for x in walk(b.term_of_operand(t["args"][1])) if x[0] == "field" and len(x) > 4 and x[4] == ARC_ENTRY]
                size_f = fs[0] if fs else None
            if nm.endswith("HashMap::<K, V, S, A>::insert"):
                fs = [x[2] for x in walk(b.term_of_operand(t["args"][1])) if x[0] == "field" and len(x) > 4 and x[4] == ARC_ENTRY]
                key_f = fs[0] if fs else None
    pos = {f: i for i, f in enumerate(fields) if f}
    if seek_f is not None and pos.get(seek_f) == 3:
        t = roles[3][1]
        pad_in_addr = any(x[0] == "var" and b.local_ty(x[1]) == "u32" for x in walk(t)) and any(x[0] == "call" and (x[1].endswith("checked_add") or False) for x in walk(t)) or any(x[0] == "bin" and x[1].startswith("Add") for x in walk(t))
        if pad_in_addr:
            rep.ok(R1, {"seek": "third u32 + header padding"})
        else:
            rep.violation(R1, b.name, "seek-padding", "the body position is the recorded offset without the header padding", where)
    elif seek_f is None or pos.get(seek_f) is None:
        # which record word fills the field was not extracted (several decodings of the record on different paths)
        rep.inconc(R1, "which record word positions the body (`%s`) was not recognised" % seek_f)
    else:
        rep.violation(R1, b.name, "seek-role", "the body is positioned from record word %s (`%s`), specified the third u32" % (pos.get(seek_f), seek_f), where)
    if size_f is not None and pos.get(size_f) == 2:
        rep.ok(R1, {"size": "second u32"})
    elif size_f is None or pos.get(size_f) is None:
        rep.inconc(R1, "which record word gives the byte count (`%s`) was not recognised" % size_f)
    else:
        rep.violation(R1, b.name, "size-role", "the byte count comes from record word %s (`%s`), specified the second u32" % (pos.get(size_f), size_f), where)
    if key_f is not None and pos.get(key_f) == 0:
        rep.ok(R1, {"key": "record name"})
    elif key_f is None or pos.get(key_f) is None:
        rep.inconc(R1, "what the entries are keyed by (`%s`) was not recognised" % key_f)
    else:
        rep.violation(R1, b.name, "key-role", "entries are keyed by `%s`" % key_f, where)
    # ---- R16.2 ----------------------------------------------------------------------------------------
    labels = {}
    for bb, t in b.calls():
        nm = callee_names(t)[1] or ""
        if nm.endswith("BinArchive::find_label_address"):
            a = strip_refs(b.term_of_operand(t["args"][1]))
            if a[0] == "const":
                labels[bb] = a[1]
    bound = lp["src"]
    cnt_from = None
    for x in walk(bound):
        if x[0] == "local":
            d = nv.definition(x[1]) if len(nv.defs().get(x[1], [])) == 1 else None
            if d is not None and any(y[0] == "call" and y[1].endswith("read_u32") for y in walk(d)):
                # reader position at that time: reader created at count address
                cnt_from = x
    reader_new = [t for bb, t in b.calls() if (callee_names(t)[1] or "").endswith("BinArchiveReader::<'a>::new")]
    start_lbl = None
    if reader_new:
        a = b.term_of_operand(reader_new[0]["args"][1])
        for x in walk(a):
            if x[0] == "call" and x[1].endswith("find_label_address") and len(x) > 3:
                start_lbl = labels.get(x[3])
    if cnt_from is not None and start_lbl == "Count":
        rep.ok(R2, {"count": "u32 at label Count"})
    elif start_lbl is None or cnt_from is None:
        rep.inconc(R2, "where the record count is read from was not recognised (bound %s)" % fmt(norm(bound))[:50])
    else:
        rep.violation(R2, b.name, "count", "the loop bound is %s read at label %r (specified: the u32 at `Count`)" % (fmt(norm(bound))[:50], start_lbl), where)
    seek_before = None
    for bb, t in sorted(b.calls(), key=lambda x: idx.get(x[0], 0)):
        nm = callee_names(t)[1] or ""
        if nm.endswith("BinArchiveReader::<'a>::seek") and not enclosing_loops(loops, bb):
            a = b.term_of_operand(t["args"][1])
            for x in walk(a):
                if x[0] == "call" and x[1].endswith("find_label_address") and len(x) > 3:
                    seek_before = labels.get(x[3])
    if seek_before == "Info":
        rep.ok(R2, {"table": "records start at label Info"})
    elif seek_before is None:
        rep.inconc(R2, "where the record table starts was not recognised")
    else:
        rep.violation(R2, b.name, "info", "records are read from label %r (specified `Info`)" % seek_before, where)
    # ---- R16.3 -----------------------------------------------------------------------------------------
    try:
        paths = enum_paths(b)
    except PathLimit:
        rep.inconc(R3, "from_bytes: too many paths")
        return
    pad = {}
    padl = [l for l in range(len(b.locals)) if b.local_ty(l) == "u32" and len(b.defs().get(l, [])) == 2 and all(d[2] == "assign" and b.term_of_rvalue(d[3]["rv"])[0] == "const" for d in b.defs()[l])]
    if len(padl) != 1:
        rep.inconc(R3, "header padding variable not recognised")
    else:
        pl = padl[0]
        for p in paths:
            for (bb, term, vals, neg, dty) in p.conds:
                ct = cond_truth((term, vals, neg, dty))
                is_word0 = lambda t_: any(x[0] == "call" and x[1].endswith("BinArchive::read_u32") and len(x[2]) > 1 and x[2][1][:2] == ("const", 0) for x in walk(t_))
                zero = None
                if ct and ct[0][0] == "bin" and ct[0][1] in ("Eq", "Ne") and ct[0][3][:2] == ("const", 0) and is_word0(ct[0][2]):
                    zero = ct[1] == (ct[0][1] == "Eq")
                elif not ct and dty in ("u32", "u64", "usize") and term[0] != "discr" and not any(x[0] == "bin" for x in walk(term)) and is_word0(term) and vals == (0,):
                    zero = not neg          # `match word { 0 => .., _ => .. }`
                if zero is not None:
                    v = (p.env or {}).get(pl)
                    if v is not None and v[0] == "const":
                        pad.setdefault(zero, set()).add(v[1])
        if not pad.get(True) or not pad.get(False):
            rep.inconc(R3, "how the header padding depends on the first word was not recognised (%s)" % pad)
        elif pad.get(True) == {0x60}:
            rep.ok(R3, {"first_word_zero": "padding 0x60"})
        else:
            rep.violation(R3, b.name, "padding-zero", "first word 0 gives padding %s (specified 0x60)" % sorted(pad.get(True, [])), where)
        if not pad.get(True) or not pad.get(False):
            pass
        elif pad.get(False) == {0}:
            rep.ok(R3, {"first_word_nonzero": "padding 0"})
        else:
            rep.violation(R3, b.name, "padding-nonzero", "first word non-zero gives padding %s (specified 0)" % sorted(pad.get(False, [])), where)
    # ---- R16.4 -----------------------------------------------------------------------------------------
    want = {"Count": "NoCount", "Info": "NoInfo"}
    got = {}
    for bb, t in b.calls():
        nm = callee_names(t)[1] or ""
        if nm.endswith("Option::<T>::ok_or") or nm.endswith("Option::<T>::ok_or_else"):
            src = b.term_of_operand(t["args"][0])
            err = b.term_of_operand(t["args"][1])
            ev = err[3] if err[0] == "agg" else fmt(err)[:30]
            x = src
            while x[0] in ("ref", "deref", "field", "downcast") or (x[0] == "call" and x[1].endswith("Try>::branch")):
                x = x[2][0] if x[0] == "call" else x[1]
            if x[0] == "call" and x[1].endswith("find_label_address") and len(x) > 3:
                got[labels.get(x[3])] = ev
            if x[0] == "call" and x[1].endswith("read_string"):
                got["name"] = ev
    # the same mapping read off the paths (whatever spells it: ok_or, match, let-else, a helper expanded in place):
    # on a path that returns an error right after finding `None` for X, which error is it?
    unknown4 = set()
    if any(got.get(k) is None for k in ("Count", "Info", "name")):
        try:
            vb = facts.ibody(b.name, combinators=True)
            vpaths = enum_paths(vb, max_paths=6000)
        except PathLimit:
            vpaths = []
            unknown4.add("too many paths")
        from c04 import is_err_term as _is_err
        for p in vpaths:
            if p.end != "ret" or _is_err(p.ret) is not True:
                continue
            last = None
            for (bb_, term, vals, neg, dty) in p.conds:
                if term[0] != "discr":
                    continue
                x = strip_refs(term[1])
                while x[0] in ("ref", "deref", "field", "downcast") or (x[0] == "call" and x[1].endswith("Try>::branch")):
                    x = strip_refs(x[2][0] if x[0] == "call" else x[1])
                what = None
                if x[0] == "call" and x[1].endswith("find_label_address") and len(x[2]) > 1:
                    a_ = strip_refs(x[2][1])
                    what = a_[1] if a_[0] == "const" else None
                elif x[0] == "call" and x[1].endswith("read_string"):
                    what = "name"
                if what is None:
                    continue
                is_opt = "Option" in str(term[2]) if len(term) > 2 else False
                none_taken = is_opt and ((vals == (0,) and not neg) or (neg and 0 not in vals))
                last = (what, none_taken)
            if last and last[1] and got.get(last[0]) is None:
                ev = None
                for y in walk(p.ret):
                    if y[0] == "agg" and y[1] == "adt" and str(y[2]).endswith("ArcError"):
                        ev = y[3]
                        break
                if ev is not None:
                    got[last[0]] = ev
    for k, v in (("Count", "NoCount"), ("Info", "NoInfo"), ("name", "MissingName")):
        if got.get(k) == v:
            rep.ok(R4, {"missing": k, "error": v})
        elif got.get(k) is None:
            rep.inconc(R4, "how a missing %s is reported was not recognised (specified %s)" % (k, v))
        else:
            rep.violation(R4, b.name, "error:" + k, "a missing %s is reported as %s (specified %s)" % (k, got.get(k), v), where)
    # every success passes both label look-ups (an image lacking either label is an error, whatever it contains)
    try:
        from c04 import is_err_term as _ie
        allp = enum_paths(b, max_paths=6000)
        skipping = None
        n_ok = 0
        for p in allp:
            if p.end != "ret" or _ie(p.ret) is not False:
                continue
            seen_lbl = set()
            for e in p.events:
                if e["k"] == "call" and e["callee"] and e["callee"].endswith("find_label_address") and len(e["args"]) > 1:
                    a_ = strip_refs(e["args"][1])
                    if a_[0] == "const":
                        seen_lbl.add(a_[1])
            if {"Count", "Info"} <= seen_lbl:
                n_ok += 1
            else:
                skipping = sorted({"Count", "Info"} - seen_lbl)
        if skipping:
            rep.violation(R4, b.name, "ok-without-label", "arc::from_bytes can return Ok without having looked up the %s label: an image lacking it is accepted" % " / ".join(skipping), where)
        elif n_ok:
            rep.ok(R4, {"success_paths": n_ok, "labels_required": ["Count", "Info"]})
    except PathLimit:
        rep.inconc(R4, "arc::from_bytes: too many paths")
    # the body address (record offset + header padding) must not silently lose bits: a narrowing cast of a value that
    # can exceed the target type turns an out-of-range record into an in-range one
    try:
        import c05 as _c05
        P_ = _c05.Prov(b)
        trunc = None
        n_casts = 0
        for bi_, si_, st_ in b.stmts():
            if st_["k"] == "assign" and st_["rv"]["k"] == "cast" and st_["rv"].get("ty") in ("u32", "u16", "u8") and st_["rv"].get("from") in ("usize", "u64", "u128", "i64"):
                t_ = b.term_of_operand(st_["rv"]["a"])
                lo_, hi_, tags_ = P_.of(t_, st_["rv"].get("from"))
                r_ = _c05.ty_range(st_["rv"]["ty"])
                n_casts += 1
                if "input" in tags_ and hi_ > r_[1] and any(x[0] == "bin" and x[1].startswith("Add") for x in walk(t_)):
                    # ... unless a dominating comparison already bounds the value by the target type's maximum
                    from flow import control_deps as _cdeps
                    cd_ = _cdeps(b)
                    f_ = _c05.lin(b, t_, P_, bi_, cd_, 0, st_["rv"].get("from"))
                    goal_ = _c05._lin_add(({}, r_[1]), f_, -1)
                    if not _c05.entails(b, bi_, cd_, P_, goal_):
                        trunc = (fmt(t_)[:70], st_["rv"]["ty"], hi_, st_.get("line"))
        if trunc:
            rep.violation(R1, b.name, "address-truncated", "the sum %s (up to %#x) is cast to %s: a record offset near the integer limit wraps to a small address inside the data region instead of being reported as out of range" % (trunc[0], trunc[2], trunc[1]), "%s:%s" % (b.file, trunc[3]))
    except Exception:
        pass
    R6 = rep.rule("R16.6", "a record is rejected only when its range leaves the data region (explicit rejections evaluated at class representatives)", floor=1)
    extraction_rejections(facts, rep, R6, b, where)
    # ---- R16.5 empty bodies ----------------------------------------------------------------------------
    R5 = rep.rule("R16.5", "a zero-length body is accepted wherever it is placed (including at the very end of the data)", floor=1)
    # bodies fetched with the positional accessor instead of the stream reader: the same question put to it
    pos_fetch = [t for bb, t in b.calls() if (callee_names(t)[1] or "").endswith("BinArchive::read_bytes") and any(
        x[0] == "field" and len(x) > 4 and x[4] == ARC_ENTRY for a_ in t["args"][1:] for x in walk(b.term_of_operand(a_)))]
    if pos_fetch:
        try:
            from summ import Evaluator as _Ev2, Ref as _Ref2
            from c04 import final_outcomes as _fo2
            pb = facts.body("mila::bin_archive::BinArchive::read_bytes")
            outs2 = _fo2(_Ev2(facts), facts, pb, [_Ref2({"data": {"len": 8}}), 8, 0]) if pb is not None else None
            if outs2 and all((o["err"] is True or o["panic"]) and o["definite"] for o in outs2):
                rep.violation(R5, b.name, "empty-at-end-positional", "file bodies are fetched with BinArchive::read_bytes(address, size), which rejects address == data size even for size 0: an empty file recorded at the very end of the data region fails to extract", "%s:%s" % (b.file, pos_fetch[0]["line"]))
            elif outs2 and any(o["err"] is False and o["definite"] for o in outs2):
                rep.ok(R5, {"fn": b.name, "positional read_bytes(size, 0)": "accepted"})
        except Exception:
            pass
    rb = facts.body("mila::bin_streams::BinArchiveReader::<'a>::read_bytes")
    if rb is None:
        rep.inconc(R5, "BinArchiveReader::read_bytes missing")
    else:
        from binser import for_loops as _fl, enclosing_loops as _el
        lps = _fl(rb)
        outside = []
        for bb2, t2 in rb.calls():
            nm2 = callee_names(t2)[1] or ""
            if nm2.startswith("mila::") and rb.local_ty(t2["dest"]["l"]).startswith("std::result::Result<") and not _el(lps, bb2):
                outside.append((bb2, t2, nm2))
        # first ask the reader itself: read_bytes(0) with the cursor at the very end of the data
        verdict = None
        try:
            from summ import Evaluator as _Ev, Ref as _Ref, Unknown as _Unk, Panic as _Pan
            from c04 import final_outcomes as _fo
            _outs = _fo(_Ev(facts), facts, rb, [_Ref({"position": 8, "archive": _Ref({"data": {"len": 8}})}), 0])
            if _outs and any(o["err"] is False and o["definite"] and not o["panic"] for o in _outs):
                verdict = "ok"
            elif _outs and all((o["err"] is True or o["panic"]) and o["definite"] for o in _outs):
                verdict = "bad"
        except Exception:
            verdict = None
        if verdict == "ok":
            rep.ok(R5, {"fn": rb.name, "read_bytes(0) at position == size": "Ok on a fully evaluated path"})
        elif verdict == "bad":
            rep.violation(R5, rb.name, "empty-at-end", "BinArchiveReader::read_bytes(0) with the cursor at the end of the data is rejected on every path: an empty file recorded at the end of the data region fails to extract", "%s:%s" % (rb.file, rb.line))
        elif not outside:
            rep.ok(R5, {"fn": rb.name, "fallible_reads": "only inside the per-byte loop: count 0 reads nothing"})
        elif any(dom_guards(rb, bb2) for bb2, t2, nm2 in outside):
            rep.inconc(R5, "BinArchiveReader::read_bytes: the positional read is conditional; whether a zero-length request at the end is accepted was not decided")
        else:
            # a fallible positional read that runs even for count == 0: it must accept the empty range at the end
            from summ import Evaluator, Ref, Unknown, Panic
            from c04 import final_outcomes
            E = Evaluator(facts)
            bad = None
            for bb2, t2, nm2 in outside:
                cb = facts.body(nm2)
                if cb is None:
                    continue
                try:
                    outs = final_outcomes(E, facts, cb, [Ref({"data": {"len": 8}}), 8, 0])
                except (Unknown, Panic) as u:
                    rep.inconc(R5, "%s not evaluable: %s" % (nm2, u))
                    continue
                if outs and all(o["err"] is True and o["definite"] for o in outs):
                    bad = "%s(position == size, 0) is rejected" % nm2.rsplit("::", 1)[-1]
            if bad:
                rep.violation(R5, rb.name, "empty-at-end", "BinArchiveReader::read_bytes performs a positional read even for a zero-length request and %s: an empty file recorded at the end of the data region fails to extract" % bad, "%s:%s" % (rb.file, rb.line))
            else:
                rep.ok(R5, {"fn": rb.name, "zero_length_at_end": "accepted"})
    uw = [(callee_names(t)[1] or "") for bb, t in b.calls() if (callee_names(t)[1] or "").rsplit("::", 1)[-1] in ("unwrap", "expect")]
    if not uw:
        rep.ok(R4, {"unwraps": 0})
    else:
        rep.violation(R4, b.name, "unwrap", "arc::from_bytes unwraps: %s" % uw, where)


def extraction_rejections(facts, rep, R6, b, where):
    """A record is reported as an error exactly when its range leaves the data region.  Every explicit error return of
    arc::from_bytes whose condition mentions a record's address / size is evaluated at class representatives
    (address, size, archive size, Count address, Info address); a record inside the data region must pass."""
    from c04 import is_err_term

    def val(t, env):
        t = strip_refs(t)
        while t[0] in ("cast", "deref"):
            t = strip_refs(t[1])
        if t[0] == "const" and isinstance(t[1], int) and not isinstance(t[1], bool):
            return t[1]
        if t[0] == "field" and isinstance(t[2], str) and t[2] in ("address", "size") and len(t) > 4 and str(t[4]).endswith("ArcEntry"):
            return env[t[2]]
        if t[0] == "call":
            sh = t[1].rsplit("::", 1)[-1]
            if sh in ("size", "len") and t[1].startswith("mila::bin_archive::BinArchive"):
                return env["S"]
            if sh in ("min", "max") and len(t[2]) == 2:
                a_, b_ = val(t[2][0], env), val(t[2][1], env)
                return None if a_ is None or b_ is None else (min if sh == "min" else max)(a_, b_)
            if sh in ("saturating_add", "wrapping_add") and len(t[2]) == 2:
                a_, b_ = val(t[2][0], env), val(t[2][1], env)
                return None if a_ is None or b_ is None else a_ + b_
            if sh in ("from", "into") and len(t[2]) == 1:
                return val(t[2][0], env)
            if sh == "find_label_address" and len(t[2]) > 1 and strip_refs(t[2][1])[0] == "const":
                return env.get("lbl:" + str(strip_refs(t[2][1])[1]))
            if sh == "branch" and t[2]:
                return val(t[2][0], env)
            if sh in ("ok_or", "ok_or_else", "unwrap", "expect") and t[2]:
                return val(t[2][0], env)
        if t[0] in ("field", "downcast") and t[0] == "downcast":
            return val(t[1], env)
        if t[0] == "field" and t[1][0] in ("downcast",):
            return val(t[1][1], env)
        if t[0] == "field" and t[3] == 0 and t[1][0] == "bin" and t[1][1].endswith("WithOverflow"):
            t = ("bin", t[1][1].replace("WithOverflow", ""), t[1][2], t[1][3])
        if t[0] == "bin":
            a_, b_ = val(t[2], env), val(t[3], env)
            if a_ is None or b_ is None:
                return None
            op = t[1].replace("WithOverflow", "").replace("Unchecked", "")
            return {"Add": a_ + b_, "Sub": a_ - b_ if a_ >= b_ else None, "Mul": a_ * b_, "Eq": a_ == b_, "Ne": a_ != b_, "Lt": a_ < b_, "Le": a_ <= b_, "Gt": a_ > b_, "Ge": a_ >= b_}.get(op)
        return None

    def mentions(t):
        return any(x[0] == "field" and isinstance(x[2], str) and x[2] in ("address", "size") and len(x) > 4 and str(x[4]).endswith("ArcEntry") for x in walk(t))
    try:
        paths = enum_paths(b, max_paths=6000)
    except PathLimit:
        rep.inconc(R6, "arc::from_bytes: too many paths")
        return
    cands = []
    for p in paths:
        if p.end != "ret" or is_err_term(p.ret) is not True:
            continue
        # an error built here (not one propagated from an accessor with `?`)
        if p.ret[0] == "call" and "from_residual" in p.ret[1]:
            continue
        if any(mentions(c[1]) and c[4] == "bool" for c in p.conds):
            cands.append(p)
    if not cands:
        rep.ok(R6, {"fn": b.name, "explicit_range_rejections": 0, "note": "ranges are rejected by the accessors only (C04)"})
        return
    grid = []
    for (c_, i_) in ((0x10, 0x20), (0x1f0, 0x1e0)):
        for a_ in (0x60, 0x100, 0x1c0, 0x1fc):
            for z_ in (0, 4, 0x40):
                grid.append({"address": a_, "size": z_, "S": 0x200, "lbl:Count": c_, "lbl:Info": i_})
    bad = undec = None
    for env in grid:
        valid = env["address"] + env["size"] <= env["S"]
        for p in cands:
            holds = True
            for (bb, term, vals, neg, dty) in p.conds:
                if dty != "bool" or not mentions(term):
                    continue
                v = val(term, env)
                if v is None:
                    holds = None
                    break
                if (int(bool(v)) in vals) == neg:
                    holds = False
                    break
            if holds is None:
                undec = fmt(term)[:60]
            elif holds and valid and bad is None:
                bad = (env, "; ".join(fmt(c[1])[:60] for c in p.conds if c[4] == "bool" and mentions(c[1])))
    if bad:
        env, conds = bad
        rep.violation(R6, b.name, "rejects-in-range", "arc::from_bytes reports an error for a record at %#x of %#x bytes in a %#x-byte data region (Count at %#x, Info at %#x) under [%s]: the range lies inside the data region" % (
            env["address"], env["size"], env["S"], env["lbl:Count"], env["lbl:Info"], conds), where)
    elif undec:
        rep.inconc(R6, "arc::from_bytes: an explicit range rejection could not be evaluated (%s)" % undec)
    else:
        rep.ok(R6, {"fn": b.name, "explicit_range_rejections": len(cands), "classes": len(grid)})

