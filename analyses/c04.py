"""C04 — cell access is bounds-safe, endian-correct and local (static rules over MIR facts)."""
import re
from mir import fmt, walk, callee_names, strip_refs
from flow import dom_guards, enum_paths, TRY_BRANCH, FROM_RESIDUAL_PREFIX, PathLimit
from summ import Evaluator, Ref, Adt, Unknown, Panic, SeqVal, deref
from common import Inconclusive

EXPLANATION = ("Decision tables of the extracted guard summaries of every public BinArchive accessor over the "
               "ordering classes of (address, size, width) including representatives next to usize::MAX; "
               "width agreement guard/slice/codec/cursor; endian dispatch table; field-effect locality. "
               "Decided for all inputs: the structural clauses; not decided: value equality write->read.")
ASSUMPTIONS = ["value equality of write followed by read follows from width+codec agreement and is not separately proved",
               "std slice indexing, copy_from_slice, {to,from}_{le,be}_bytes behave as documented"]

MAX = 2 ** 64 - 1
IMAX = 2 ** 63 - 1
WIDTH = {"u8": 1, "i8": 1, "u16": 2, "i16": 2, "u32": 4, "i32": 4, "f32": 4}
ARCHIVE = "mila::bin_archive::BinArchive"


def result_inner(ty):
    m = re.match(r"std::result::Result<(.*), errors::ArchiveError>$", ty)
    return m.group(1) if m else None


def classify(body):
    """Returns (category, width or None) for a public BinArchive method taking an address."""
    if body.argc < 2 or body.local_ty(2) != "usize":
        return None
    self_ty = body.local_ty(1)
    ret = result_inner(body.local_ty(0))
    if ret is None:
        return None
    mutable = self_ty.startswith("&mut")
    extra = [body.local_ty(i) for i in range(3, body.argc + 1)]
    if not mutable:
        if ret in WIDTH and not extra:
            return ("typed_read", WIDTH[ret])
        if ret == "&[u8]" and extra == ["usize"]:
            return ("bytes_read", None)
        if ret.startswith("std::option::Option<") and not extra:
            return ("ann_read", 4)
        return None
    if ret != "()":
        return None
    if len(extra) == 1 and extra[0] in WIDTH:
        return ("typed_write", WIDTH[extra[0]])
    if extra == ["&[u8]"]:
        return ("bytes_write", None)
    return ("ann_write", 4)


def is_err_term(t):
    if t is None:
        return None
    if t[0] == "agg" and t[1] == "adt" and t[3] in ("Ok", "Err"):
        return t[3] == "Err"
    if t[0] == "call" and t[1].startswith(FROM_RESIDUAL_PREFIX):
        return True
    if t[0] == "call":
        return None  # delegated (e.g. write_string(None) -> delete_string)
    return None


def data_access_events(path):
    """Events on the path that touch self.data's contents (index, index_mut, deref for copy)."""
    out = []
    for e in path.events:
        if e["k"] == "call" and e["callee"]:
            c = e["callee"]
            if ("ops::Index" in c or "ops::IndexMut" in c) and e["args"]:
                base = strip_refs(e["args"][0])
                if base[0] == "field" and base[2] == "data":
                    out.append(e)
        elif e["k"] == "assert" and e["kind"] == "BoundsCheck":
            out.append(e)
    return out


def insert_into_labels(body):
    """Does this accessor add to the `labels` field (insert / push into a bucket obtained from it)?"""
    for bb, t in body.calls():
        n = callee_names(t)
        nm = n[1] or n[0] or ""
        if nm.endswith("::insert") and t["args"]:
            term = body.term_of_operand(t["args"][0])
            b = strip_refs(term)
            if b[0] == "field" and b[2] == "labels":
                return True
    return False


def run(facts, rep, ctx):
    E = Evaluator(facts)
    accessors = []
    for b in facts.views():
        if b.kind != "AssocFn" or not b.pub or not b.name.startswith(ARCHIVE + "::"):
            continue
        if b.self_ty not in ("&bin_archive::BinArchive", "&mut bin_archive::BinArchive"):
            continue
        # C03's operations are not accessors
        short = b.name.rsplit("::", 1)[-1]
        if short in ("allocate", "deallocate", "truncate", "assert_equal_regions"):
            continue
        c = classify(b)
        if c:
            accessors.append((b, c))
    R2 = rep.rule("R04.2", "guard <=> range for every accessor, no panic at any ordering class incl. near usize::MAX (subsumes R04.1/R04.5)", floor=29)
    R3 = rep.rule("R04.3", "width agreement: guard constant = slice range = codec width; accessed index = address", floor=16)
    R6 = rep.rule("R04.6", "effect locality: typed writes touch only self.data[a..a+W]; annotation writes never touch data; nothing is written on an error path", floor=25)
    sizes = [0, 1, 2, 3, 4, 5, 8, 9]
    addrs = [0, 1, 2, 3, 4, 5, 6, 7, 8, 9, 10, MAX - 4, MAX - 3, MAX - 2, MAX - 1, MAX]
    for b, (cat, W) in sorted(accessors, key=lambda x: x[0].name):
        short = b.name.rsplit("::", 1)[-1]
        try:
            paths = E.summary(b)
        except Unknown as u:
            rep.inconc(R2, "%s: %s" % (b.name, u))
            continue
        # labels may sit at the end address (C01's domain: "labels at any address <= size"): by the accessor's
        # role, not by how it happens to store the bucket (insert / entry API)
        end_valid = cat == "ann_write" and (insert_into_labels(b) or short in ("write_label", "write_labels"))
        bad = []
        rows = 0
        undecided = set()
        for S in sizes:
            for a in addrs:
                amounts = [None]
                if cat in ("bytes_read", "bytes_write"):
                    amounts = sorted(set([1, 3, 4, 8, 9, MAX] + ([MAX - a, MAX - a + 1] if 0 < MAX - a else [])))
                    amounts = [m for m in amounts if 0 < m <= MAX]
                    if cat == "bytes_write":
                        # a slice never holds more than isize::MAX bytes
                        amounts = [m for m in amounts if m <= IMAX] + [IMAX]
                for m in amounts:
                    w = m if m is not None else W
                    selfv = Ref({"data": {"len": S}})
                    args = [selfv, a]
                    if cat == "bytes_read":
                        args.append(m)
                    elif cat == "bytes_write":
                        args.append(Ref({"len": m}))
                    elif cat in ("typed_write", "ann_write"):
                        args += [Adt("opaque", "V")] * (b.argc - 2)
                    if end_valid:
                        valid = a <= S
                    else:
                        valid = a < S and a + w <= S
                    try:
                        outs = final_outcomes(E, facts, b, args)
                    except Unknown as u:
                        rep.inconc(R2, "%s: %s" % (b.name, u))
                        outs = None
                    if outs is None:
                        break
                    rows += 1
                    panics = [o for o in outs if o["panic"] and "(assertion)" not in str(o["panic"]) and (o["definite"] or "explicit panic" not in str(o["panic"]))]
                    if panics:
                        bad.append(("panic", S, a, m, panics[0]["panic"]))
                        continue
                    errs = [o for o in outs if o["err"] is True]
                    oks = [o for o in outs if o["err"] is not True]
                    if valid:
                        if any(o["definite"] for o in errs) or not oks:
                            bad.append(("rejects-valid", S, a, m, ""))
                    else:
                        # every consistent path must be an error path that never touched the data
                        if any(o["definite"] for o in oks):
                            bad.append(("accepts-invalid", S, a, m, ""))
                        elif oks and cat.startswith("ann_read") and any(state_dependent_only(E, b, o) for o in oks):
                            # the only thing between an out-of-range address and Ok is whether the archive's own
                            # annotation map has an entry there: the property quantifies over archives, so it has
                            bad.append(("accepts-invalid", S, a, m, "(for an archive whose annotation map has an entry at that address: the lookup is answered before the range check)"))
                        elif oks:
                            undecided.add("%s: a success path could not be excluded at size=%s address=%s (a condition on it is not evaluable)" % (short, S, hexs(a)))
                        live = [o for o in outs if not o["panic"]]
                        if live and all(any(data_access_events(p) for p in o["paths"]) for o in live):
                            # whichever of the consistent paths is taken, the data is touched for a range that
                            # is not inside it: no error path free of an access exists at this class
                            bad.append(("access-before-error", S, a, m, "(every path consistent with this class touches the data)"))
                            continue
                        for o in errs:
                            if any(data_access_events(p) for p in o["paths"]):
                                if o["definite"]:
                                    bad.append(("access-before-error", S, a, m, ""))
                                else:
                                    undecided.add("%s: an error path that touches the data could not be excluded at size=%s address=%s" % (short, S, hexs(a)))
        for u_ in sorted(undecided)[:1]:
            rep.inconc(R2, u_)
        if bad:
            kinds = sorted(set(x[0] for x in bad))
            for kd in kinds:
                ex = [x for x in bad if x[0] == kd][0]
                rep.violation(R2, b.name, kd,
                              "%s: %s at size=%s address=%s%s %s (%d class(es))" % (
                                  short, kd, ex[1], hexs(ex[2]), (" amount=%s" % hexs(ex[3])) if ex[3] is not None else "",
                                  ex[4], len([x for x in bad if x[0] == kd])),
                              "%s:%s" % (b.file, b.line))
        else:
            rep.ok(R2, {"fn": b.name, "category": cat, "width": W, "end_is_valid": end_valid, "classes": rows})
        rep.count("guard_classes_evaluated", rows)

        # R04.3 width agreement on the success path(s)
        if cat in ("typed_read", "typed_write", "bytes_read", "bytes_write"):
            if W is None:
                W = 7  # representative length for the byte-range accessors
            okp = [p for p in paths if is_err_term(p.ret) is False]
            viol = None
            seen_access = False
            for p in okp:
                for e in p.events:
                    if e["k"] == "call" and e["callee"] and ("ops::Index" in e["callee"] or "ops::IndexMut" in e["callee"]):
                        base = strip_refs(e["args"][0])
                        if not (base[0] == "field" and base[2] == "data"):
                            continue
                        seen_access = True
                        idx = e["args"][1]
                        env = {("p", 1): Ref({"data": {"len": 1000}}), ("p", 2): 100}
                        if cat == "bytes_read":
                            env[("p", 3)] = 7
                        elif cat == "bytes_write":
                            env[("p", 3)] = Ref({"len": 7})
                        try:
                            v = deref(E.ev(idx, env, b))
                        except (Unknown, Panic) as u:
                            rep.inconc(R3, "%s: index expression not evaluable: %s" % (b.name, u))
                            continue
                        if isinstance(v, Adt) and len(v.fields) == 2:
                            lo, hi = v.fields
                            if lo != 100 or hi - lo != W:
                                viol = "accesses data[a%+d .. a%+d], expected width %d" % (lo - 100, hi - 100, W)
                        elif isinstance(v, int):
                            if v != 100 or W != 1:
                                viol = "accesses data[a%+d] for width %d" % (v - 100, W)
                        else:
                            viol = "unrecognised index value %r" % (v,)
                    if e["k"] == "call" and e["callee"] and re.search(r"Endian::(de|en)code_(\w+)$", e["callee"]):
                        ty = re.search(r"code_(\w+)$", e["callee"]).group(1)
                        if WIDTH.get(ty) != W:
                            viol = "codec %s has width %s, accessor width %d" % (e["callee"], WIDTH.get(ty), W)
                        want_ty = result_inner(b.local_ty(0)) if cat == "typed_read" else b.local_ty(3)
                        if ty != want_ty:
                            viol = "codec %s used for value type %s" % (e["callee"], want_ty)
                        # the endianness argument must be self.endian
                        en = strip_refs(e["args"][0])
                        if not (en[0] == "field" and en[2] == "endian"):
                            viol = "codec called with %s instead of self.endian" % fmt(e["args"][0])
            if not okp or not seen_access:
                rep.inconc(R3, "%s: no success path with a data access recognised" % b.name)
            elif viol:
                rep.violation(R3, b.name, "width", "%s: %s" % (short, viol), "%s:%s" % (b.file, b.line))
            else:
                rep.ok(R3, {"fn": b.name, "width": W})

        # R04.6 effect locality
        if cat in ("typed_write", "bytes_write", "ann_write"):
            viol = None
            unk = None
            # on the graph (loops included): once a call has been handed `&mut self` or a mutable handle into it, no
            # error exit may still be reachable -- a write that fails part-way has already changed something
            err_blocks = set()
            for bi_, si_, st_ in b.stmts():
                if st_["k"] == "assign" and st_["lhs"]["l"] == 0 and not st_["lhs"]["p"] and st_["rv"]["k"] == "agg" and st_["rv"].get("variant") == "Err":
                    err_blocks.add(bi_)
            for bb_, t_ in b.calls():
                if (callee_names(t_)[0] or "").endswith("FromResidual::from_residual") and not t_["dest"]["p"] and t_["dest"]["l"] == 0:
                    err_blocks.add(bb_)
            for bb_, t_ in b.calls():
                nm_ = callee_names(t_)[1] or callee_names(t_)[0] or ""
                sh_ = nm_.rsplit("::", 1)[-1]
                if sh_ in BORROW_ONLY or not t_["args"] or t_.get("t") is None:
                    continue
                a0 = b.term_of_operand(t_["args"][0])
                whole_self = a0[0] == "ref" and a0[2] and strip_refs(a0)[0] == "param" and strip_refs(a0)[1] == 1 and nm_.startswith(ARCHIVE + "::")
                handle = root_field(a0, False)[0]
                if not (whole_self or handle):
                    continue
                after = b.reachable_blocks(t_["t"])
                late = sorted(e_ for e_ in err_blocks if e_ in after and e_ != bb_)
                if late and cat in ("typed_write", "bytes_write"):
                    # the call's own failure is an error exit right after it: only exits that need a *further* step count
                    direct = set()
                    nxt = t_["t"]
                    # blocks that only test this call's result and propagate its error
                    res_l = t_["dest"]["l"] if not t_["dest"]["p"] else None
                    own = set()
                    for e_ in late:
                        conds = [c_ for (a_, s_, c_) in dom_guards(b, e_)]
                        own_fail = False
                        for (a_, s_, c_) in dom_guards(b, e_, skip_try=False):
                            term_ = c_[0]
                            if term_[0] == "discr" and any(x[0] == "call" and len(x) > 3 and x[3] == bb_ for x in walk(term_)):
                                own_fail = True
                        if own_fail:
                            own.add(e_)
                    later_fail = [e_ for e_ in late if e_ not in own]
                    looped = bb_ in after          # the call can run again after having succeeded once
                    if later_fail or (looped and own):
                        viol = "%s can fail after %s has already modified the archive (a partial write is left behind)" % (short, sh_)
            for p in paths:
                err = is_err_term(p.ret)
                muts = mutation_events(p)
                if err is True and muts:
                    viol = "mutates %s on an error path" % muts[0][1]
                for kind, fld, via in muts:
                    if cat in ("typed_write", "bytes_write"):
                        if fld != "data":
                            viol = "typed write performs %s on field %s" % (kind, fld)
                        elif kind in RESIZING:
                            viol = "typed write performs %s on field data: the data region changes size" % kind
                        elif kind not in IN_PLACE:
                            unk = "typed write performs %s on field data, an operation this rule has no contract for" % kind
                    else:
                        if fld == "data":
                            viol = "annotation write touches raw data (%s)" % kind
            if viol:
                rep.violation(R6, b.name, "effect", "%s: %s" % (short, viol), "%s:%s" % (b.file, b.line))
            elif unk:
                rep.inconc(R6, "%s: %s" % (short, unk))
            else:
                rep.ok(R6, {"fn": b.name, "category": cat})
        else:
            # readers take &self: by typing they cannot mutate; checked by the witness W04
            rep.ok(R6, {"fn": b.name, "category": cat, "by": "&self receiver"})

    # R04.4 endian table
    R4 = rep.rule("R04.4", "Endian::{encode,decode}_T dispatch: Little -> {to,from}_le_bytes, Big -> {to,from}_be_bytes of type T", floor=20)
    for b in sorted(facts.views(), key=lambda b: b.name):
        m = re.match(r"mila::endian_aware_io::Endian::(encode|decode)_(\w+)$", b.name)
        if not m or not b.pub:
            continue
        direction, ty = m.group(1), m.group(2)
        b = facts.ibody(b.id, combinators=True)
        try:
            paths = enum_paths(b)
        except PathLimit:
            rep.inconc(R4, b.name + ": too many paths")
            continue
        table = {}
        deleg = {}
        width = {"u16": 2, "i16": 2, "u32": 4, "i32": 4, "f32": 4, "u64": 8, "i64": 8, "f64": 8}
        adt = facts.adts.get("mila::endian_aware_io::Endian")
        vnames = {v["discr"]: v["name"] for v in adt["variants"]} if adt else {0: "Little", 1: "Big"}
        for p in paths:
            sel = set(vnames.values())
            for (bb, term, vals, neg, dty) in p.conds:
                if term[0] == "discr" and strip_refs(term[1])[0] == "param" and strip_refs(term[1])[1] == 1:
                    names = set(vnames[v] for v in vals if v in vnames)
                    sel = sel - names if neg else sel & names
            if p.end != "ret" or is_err_term(p.ret) is True:
                continue
            # byte-order conversions on the path; every whole-value byte reversal on the path (slice reverse,
            # swap(0, 1) of a 2-byte array, integer swap_bytes) flips the effective order once
            flips = 0
            conv = []
            odd = False
            for e in p.events:
                if e["k"] != "call" or not e["callee"]:
                    continue
                if e["callee"].endswith("<impl [T]>::reverse") or re.search(r"<impl \w+>::swap_bytes$", e["callee"]):
                    flips += 1
                elif e["callee"].endswith("<impl [T]>::swap"):
                    a = [x for x in e.get("args", [])[1:]]
                    if width.get(ty) == 2 and sorted(a) == [("const", 0, "usize"), ("const", 1, "usize")]:
                        flips += 1
                    else:
                        odd = True
                elif re.search(r"<impl (\[T\]|\w+)>::(rotate_left|rotate_right|reverse_bits)$", e["callee"]):
                    odd = True
                mm = re.search(r"<impl (\w+)>::(to|from)_(le|be)_bytes$", e["callee"])
                if mm:
                    conv.append([mm.group(1), mm.group(2), mm.group(3)])
                dm = re.match(r"mila::endian_aware_io::Endian::(encode|decode)_(\w+)$", e["callee"])
                if dm and dm.group(1) == direction and dm.group(2) != ty:
                    for v in sel:
                        deleg.setdefault(v, set()).add(dm.group(2))
            if odd:
                conv = [[c[0], c[1], "?"] for c in conv] or [["?", "?", "?"]]
            elif flips % 2 and conv:
                conv[-1][2] = "be" if conv[-1][2] == "le" else "le"
            conv = [tuple(c) for c in conv]
            for v in sel:
                table.setdefault(v, set()).update(conv)
        for variant, suffix in (("Little", "le"), ("Big", "be")):
            want_dir = "from" if direction == "decode" else "to"
            got = table.get(variant, set())
            via = deleg.get(variant, set())
            if len(got) == 1 and list(got)[0][1] == want_dir and list(got)[0][2] == suffix and width.get(list(got)[0][0]) == width.get(ty):
                rep.ok(R4, {"fn": b.name, "variant": variant, "conv": "%s::%s_%s_bytes" % list(got)[0]})
            elif not got and len(via) == 1 and width.get(list(via)[0]) == width.get(ty):
                # same-width sibling (checked on its own) plus a bit-preserving cast / from_bits
                rep.ok(R4, {"fn": b.name, "variant": variant, "conv": "via %s_%s" % (direction, list(via)[0])})
            elif got and all(g[1] == want_dir for g in got) and len(got) == 1 and list(got)[0][2] != "?":
                g = list(got)[0]
                rep.violation(R4, b.name, variant, "%s on Endian::%s converts with %s::%s_%s_bytes, expected %s::%s_%s_bytes" % (
                    b.name.rsplit("::", 1)[-1], variant, g[0], g[1], g[2], ty, want_dir, suffix), "%s:%s" % (b.file, b.line))
            else:
                rep.inconc(R4, "%s on Endian::%s: byte-order conversion not recognised (%s)" % (b.name.rsplit("::", 1)[-1], variant, sorted(got) or "none"))

    stream_rules(facts, rep, E)
    adt_rule(facts, rep)


def state_dependent_only(E, body, o):
    """All conditions of outcome o's path that could not be evaluated are look-ups in one of the archive's own maps
    (`self.text.get(&address)` ...): whether the path is taken depends only on the archive's content."""
    unk = 0
    for p in o["paths"][:1]:
        for (bb, term, vals, neg, dty) in p.conds:
            try:
                E.ev(term, o.get("env") or {}, body, 0)
            except Unknown:
                t = term[1] if term[0] == "discr" else term
                t = strip_refs(t)
                if t[0] == "call" and t[1].rsplit("::", 1)[-1] in ("get", "contains_key", "get_mut", "get_key_value") and t[2] and root_field(("ref", strip_refs(t[2][0]), True), False)[0]:
                    unk += 1
                    continue
                return False
            except Panic:
                return False
    return unk > 0


def final_outcomes(E, facts, body, args, depth=0):
    """Outcomes of `body` at a class representative, following tail delegation
    (`None => self.delete_x(address)`) into local callees."""
    res = []
    for o in E.outcomes(body, args):
        p = o["path"]
        err = is_err_term(p.ret) if p.ret is not None else None
        if o["panic"]:
            res.append({"err": None, "definite": o["definite"], "panic": o["panic"], "paths": [p], "env": o["env"]})
            continue
        if err is None and p.ret is not None and p.ret[0] == "call" and depth < 4:
            cb = facts.body(p.ret[1])
            if cb is not None:
                try:
                    cargs = [E.ev(a, o["env"], body) for a in p.ret[2]]
                except Panic as pe:
                    res.append({"err": None, "definite": o["definite"], "panic": pe.what, "paths": [p], "env": o["env"]})
                    continue
                for o2 in final_outcomes(E, facts, cb, cargs, depth + 1):
                    res.append({"err": o2["err"], "definite": o["definite"] and o2["definite"], "panic": o2["panic"],
                                "paths": [p] + o2["paths"], "env": o["env"]})
                continue
        definite = o["definite"]
        if err is None and p.ret is not None:
            # the returned value is computed (combinators, helper results): evaluate it to see which variant it is
            try:
                v = deref(E.ev(p.ret, o["env"], body))
                if isinstance(v, Adt) and v.variant in ("Ok", "Some"):
                    err = False
                elif isinstance(v, Adt) and v.variant in ("Err", "None"):
                    err = True
                else:
                    definite = False
            except Panic as pe:
                res.append({"err": None, "definite": definite, "panic": pe.what, "paths": [p], "env": o["env"]})
                continue
            except Unknown:
                definite = False
        res.append({"err": err, "definite": definite, "panic": None, "paths": [p], "env": o["env"]})
    return res


def hexs(v):
    if v is None:
        return "-"
    if v > 1 << 32:
        return "usize::MAX-%d" % (MAX - v)
    return str(v)


MUTATORS = ("insert", "remove", "push", "pop", "clear", "drain", "splice", "truncate", "resize", "extend",
            "retain", "entry", "get_mut", "append", "swap", "sort", "copy_from_slice", "index_mut", "deref_mut",
            "iter_mut", "values_mut", "fill", "reserve", "shrink_to_fit", "dedup", "reverse", "split_off",
            "swap_remove", "extend_from_slice", "insert_str", "push_str", "as_mut_slice", "as_mut", "set_len")


BORROW_ONLY = ("get_mut", "index_mut", "deref_mut", "entry", "iter_mut", "values_mut", "as_mut", "as_mut_slice",
               "branch", "from_residual", "split_at_mut", "split_first_mut", "split_last_mut", "chunks_mut",
               "chunks_exact_mut", "first_mut", "last_mut", "get_unchecked_mut", "unwrap", "expect",
               # Option / Result plumbing that only re-wraps the handle
               "ok_or", "ok_or_else", "map_err", "ok")
RESIZING = ("insert", "remove", "push", "pop", "clear", "drain", "splice", "truncate", "resize", "extend", "retain",
            "append", "dedup", "split_off", "swap_remove", "extend_from_slice", "set_len", "resize_with")
IN_PLACE = ("store", "copy_from_slice", "clone_from_slice", "fill", "swap", "copy_within", "write", "replace")


def mutation_events(path):
    """(kind, field, via) for every event on the path that mutates a field of self (param 1).
    Calls that merely hand out a mutable handle (get_mut, index_mut, entry, ...) are not mutations;
    a call that *receives* such a handle, or a `&mut self.field`, is."""
    out = []
    for e in path.events:
        if e["k"] == "write":
            root, fld, via = root_field(e["place"], True)
            if root:
                out.append(("store", fld, via))
        elif e["k"] == "call" and e["callee"]:
            nm = e["callee"].rsplit("::", 1)[-1]
            if nm in BORROW_ONLY:
                continue
            for a in e["args"]:
                root, fld, via = root_field(a, False)
                if root:
                    out.append((nm, fld, via))
    return out


def root_field(t, is_place=True):
    """If term t denotes (a mutable handle to) a place inside *self (param 1), return
    (True, first field name, tuple of handle-calls passed through)."""
    fld = None
    via = []
    mut = is_place
    if not is_place:
        # a call argument is a mutable handle only if it is `&mut place` or a by-value handle
        # (Entry, Option<&mut V> payload) obtained from a borrow-only call
        if t[0] == "ref":
            if not t[2]:
                return False, None, ()
        else:
            probe = t
            while probe[0] in ("field", "downcast", "deref"):
                probe = probe[1]
            if not (probe[0] == "call" and probe[1] and probe[1].rsplit("::", 1)[-1] in BORROW_ONLY):
                return False, None, ()
            mut = True
    while True:
        if t[0] == "field":
            # a field of self, or the payload field of an Option/Entry handle
            if t[1][0] in ("downcast",):
                t = t[1]
                continue
            fld = t[2]
            t = t[1]
        elif t[0] == "ref":
            if t[2]:
                mut = True
            t = t[1]
        elif t[0] in ("deref", "index", "downcast", "subslice"):
            t = t[1]
        elif t[0] == "call" and t[1] and t[1].rsplit("::", 1)[-1] in BORROW_ONLY and t[2]:
            via.append(t[1].rsplit("::", 1)[-1])
            fld = None
            t = t[2][0]
        else:
            break
    if t[0] == "param" and t[1] == 1 and fld is not None and mut:
        return True, fld, tuple(via)
    return False, None, ()


def zero_length_runs(facts, rep, R7, E):
    """A byte run of length zero makes no access: `read_bytes(0)` / `write_bytes(&[])` succeed wherever the cursor is,
    the end of the data included (a per-byte loop does; one positional call for the whole run must too)."""
    for cls, meth, arg in (("BinArchiveReader", "read_bytes", 0), ("BinArchiveWriter", "write_bytes", Ref({"len": 0}))):
        b = facts.body("mila::bin_streams::%s::<'a>::%s" % (cls, meth))
        if b is None:
            continue
        for pos in (8, 9):
            try:
                outs = final_outcomes(E, facts, b, [Ref({"position": pos, "archive": Ref({"data": {"len": 8}})}), arg])
            except (Unknown, Panic, RecursionError):
                outs = None
            if outs and any(o["err"] is False and o["definite"] and not o["panic"] for o in outs):
                rep.ok(R7, {"fn": b.name, "zero_length_run_at": pos, "size": 8})
            elif outs and all((o["err"] is True or o["panic"]) and o["definite"] for o in outs):
                rep.violation(R7, b.name, "empty-run-rejected", "%s::%s of a zero-length run with the cursor at %d of 8 bytes is rejected on every path: the run touches no byte, and the byte-wise form succeeds" % (cls, meth, pos), "%s:%s" % (b.file, b.line))
                break


def cursor_primitives(facts, rep, R7):
    """seek(p) makes the cursor exactly p, skip(n) exactly cursor + n, tell() reports it: the cursor is an address like
    any other, a stream call at it must do what the positional call does *there* -- also beyond the end, where the
    positional call reports out-of-bounds.  Witness of a violation: the stored cursor is capped by the archive size
    (`min` / `clamp` / a size read inside the stored value)."""
    for cls in ("BinArchiveReader", "BinArchiveWriter"):
        prefix = "mila::bin_streams::%s::<'a>::" % cls
        views = {b.name: b for b in facts.views()}
        for short in ("seek", "skip"):
            b = views.get(prefix + short)
            if b is None or b.argc != 2:
                continue
            where = "%s:%s" % (b.file, b.line)
            try:
                paths = [p for p in enum_paths(b) if p.end == "ret"]
            except PathLimit:
                rep.inconc(R7, b.name + ": too many paths")
                continue
            verdict = "ok"
            for p in paths:
                stored = [e["val"] for e in p.events if e["k"] == "write" and root_field(e["place"])[:2] == (True, "position")]
                stored += [e["args"][1] for e in p.events if e["k"] == "call" and e["callee"] in (prefix + "seek",) and e["callee"] != b.name and len(e["args"]) == 2]
                if not stored:
                    verdict = "a path of %s does not set the cursor" % short if verdict == "ok" else verdict
                    continue
                t = stored[-1]
                caps = [x[1].rsplit("::", 1)[-1] for x in walk(t) if x[0] == "call" and (
                    x[1].rsplit("::", 1)[-1] in ("min", "clamp") or x[1].endswith("BinArchive::size") or
                    (x[1].rsplit("::", 1)[-1] == "len" and any(y[0] == "field" and y[2] == "data" for y in walk(x))))]
                if caps and any(x[0] == "param" and x[1] == 2 for x in walk(t)):
                    rep.violation(R7, b.name, "cursor-clamped",
                                  "%s::%s stores %s as the cursor: a position beyond the end is pulled back to the archive size, so the stream call that follows acts at `size` where the positional call at the requested address reports out-of-bounds (a label written at size+4 lands on the end address; tell() no longer returns what was sought)" % (
                                      cls, short, fmt(t)[:70]), where)
                    verdict = None
                    break
                tt = strip_refs(t)
                while tt[0] == "cast":
                    tt = strip_refs(tt[1])
                plain = (short == "seek" and tt[0] == "param" and tt[1] == 2) or (
                    short == "skip" and any(x[0] == "param" and x[1] == 2 for x in walk(t)) and
                    any(x[0] == "field" and x[2] == "position" for x in walk(t)) and
                    not any(x[0] == "call" and x[1].rsplit("::", 1)[-1] not in ("wrapping_add", "saturating_add", "checked_add", "unwrap_or", "unwrap") for x in walk(t)))
                if not plain and verdict == "ok":
                    verdict = "%s stores %s as the cursor; not recognised as %s" % (short, fmt(t)[:60], "the argument" if short == "seek" else "cursor + amount")
            if verdict == "ok":
                rep.ok(R7, {"fn": b.name, "cursor": "= argument" if short == "seek" else "= cursor + amount"})
            elif verdict:
                rep.inconc(R7, "%s: %s" % (b.name, verdict))


def stream_rules(facts, rep, E):
    R7 = rep.rule("R04.7", "stream reader/writer methods: delegate to the positional accessor at self.position and advance the cursor by exactly its width on success only (label access: no movement)", floor=25)
    zero_length_runs(facts, rep, R7, E)
    cursor_primitives(facts, rep, R7)
    for cls in ("BinArchiveReader", "BinArchiveWriter"):
        prefix = "mila::bin_streams::%s::<'a>::" % cls
        for b in sorted(facts.views(), key=lambda b: b.name):
            if not b.name.startswith(prefix) or not b.pub or b.kind != "AssocFn":
                continue
            short = b.name[len(prefix):]
            if short in ("new", "archive", "seek", "skip", "tell", "size", "length", "allocate", "allocate_at_end"):
                continue
            try:
                paths = enum_paths(b)
            except PathLimit:
                rep.inconc(R7, b.name + ": too many paths")
                continue
            viol = None
            kind = None
            skipped_paths = []
            bulk_seen = short in ("read_bytes", "write_bytes")      # a zero-length run makes no access at all
            for p in paths:
                if p.end == "loop":
                    continue
                err = is_err_term(p.ret)
                delegated = None
                for e in p.events:
                    if e["k"] == "call" and e["callee"] and e["callee"].startswith(ARCHIVE + "::") and len(e["args"]) > 1:
                        tb_ = facts.body(e["callee"])
                        if tb_ is not None and classify(tb_) is not None:
                            delegated = e
                    if e["k"] == "call" and e["callee"] and e["callee"].startswith(prefix) and e["callee"] != b.name:
                        kind = "via:" + e["callee"][len(prefix):]
                writes = [e for e in p.events if e["k"] == "write" and root_field(e["place"])[:2] == (True, "position")]
                if delegated is not None:
                    kind = "direct"
                    tb = facts.body(delegated["callee"])
                    cat = classify(tb) if tb else None
                    # position argument must be self.position
                    pos = delegated["args"][1] if len(delegated["args"]) > 1 else None
                    pb = strip_refs(pos) if pos else None
                    if not (pb and pb[0] == "field" and pb[2] == "position" and strip_refs(pb[1])[0] == "param"):
                        viol = "passes %s instead of self.position" % (fmt(pos) if pos else "nothing")
                    want = 0
                    if cat and cat[0] in ("bytes_read", "bytes_write"):
                        want = 7   # representative length bound to the extra parameter below
                    if cat and cat[0] in ("typed_read", "typed_write"):
                        want = cat[1]
                    elif cat and cat[0] in ("ann_read", "ann_write"):
                        want = 4
                        tname = delegated["callee"].rsplit("::", 1)[-1]
                        if insert_into_labels(tb) or (cat[0] == "ann_read" and "labels" in accessed_fields(tb)):
                            want = 0
                    # (the byte-run accessors are sequences of single-byte accesses: a run that fails part-way has
                    # consumed the bytes before the failure, so movement on their error paths is specified)
                    if err is True and writes and not (cat and cat[0] in ("bytes_read", "bytes_write")):
                        viol = "cursor moves on an error path"
                    moves = list(writes) + [e for e in p.events if e["k"] == "call" and e["callee"] and e["callee"].startswith(prefix) and
                                            e["callee"].rsplit("::", 1)[-1] in ("skip", "seek") and not (len(e["args"]) > 1 and e["args"][1][:2] == ("const", 0))]
                    tested = any(any(x == delegated["val"] for x in walk(term_)) and (term_[0] == "discr" or (term_[0] == "call" and term_[1].rsplit("::", 1)[-1] in ("is_ok", "is_err", "is_some", "is_none")))
                                 for (bb_, term_, vals_, neg_, dty_) in p.conds)
                    if err is None and moves and p.ret is not None and any(x == delegated["val"] for x in walk(p.ret)) and not tested:
                        # the delegate's result is returned as it is, untested: the same path serves Ok and Err
                        viol = "cursor moves before the result of %s is known: a failed access still advances it" % delegated["callee"].rsplit("::", 1)[-1]
                    if err is False:
                        inc = 0
                        for w in writes:
                            try:
                                env7 = {("p", 1): Ref({"position": 1000, "archive": Ref({"data": {"len": 5000}})})}
                                for pi in range(2, b.argc + 1):
                                    env7[("p", pi)] = Ref({"len": 7}) if b.local_ty(pi).startswith("&[") else 7
                                inc = E.ev(w["val"], env7, b) - 1000
                            except (Unknown, Panic, TypeError) as u:
                                rep.inconc(R7, "%s: cursor update not evaluable: %s" % (b.name, u))
                                inc = None
                        if len(writes) > 1:
                            viol = "cursor written %d times" % len(writes)
                        if inc is not None and inc != want and not viol:
                            viol = "advances cursor by %d after %s (width %d)" % (inc, delegated["callee"].rsplit("::", 1)[-1], want)
                elif kind and kind.startswith("via:"):
                    if writes and not (bulk_seen and err is True):
                        # (a byte run that fails part-way leaves the cursor where the byte-wise form leaves it)
                        viol = "delegating method also moves the cursor"
                if delegated is None and err is False and p.end == "ret" and not any(
                        e["k"] == "call" and e["callee"] and e["callee"].startswith(prefix) and e["callee"] != b.name for e in p.events):
                    skipped_paths.append((bool(writes), "; ".join(fmt(c_[1])[:50] for c_ in p.conds[-2:])))
            if kind == "direct" and skipped_paths and not viol and not bulk_seen:
                moved, conds_ = skipped_paths[0]
                viol = "returns Ok%s without making the positional call (under [%s]): the stream call does not behave like the positional call at the cursor" % (" and moves the cursor" if moved else "", conds_)
            if kind is None:
                rep.inconc(R7, "%s: no delegation recognised" % b.name)
            elif viol:
                rep.violation(R7, b.name, "cursor", "%s::%s: %s" % (cls, short, viol), "%s:%s" % (b.file, b.line))
            else:
                rep.ok(R7, {"fn": b.name, "kind": kind})


def accessed_fields(body):
    out = set()
    for bb, t in body.calls():
        for a in t["args"]:
            term = body.term_of_operand(a)
            t2 = strip_refs(term)
            if t2[0] == "field" and strip_refs(t2[1])[0] == "param" and strip_refs(t2[1])[1] == 1:
                out.add(t2[2])
    return out


def adt_rule(facts, rep):
    R8 = rep.rule("R04.8", "BinArchive has no interior mutability: reads through &self cannot change state", floor=1)
    a = facts.adts.get(ARCHIVE)
    if not a:
        rep.inconc(R8, "BinArchive ADT not found")
        return
    bad = []
    for f in a["variants"][0]["fields"]:
        if re.search(r"\b(Cell|RefCell|UnsafeCell|Mutex|RwLock|Atomic\w+|OnceCell|OnceLock)\b", f["ty"]):
            bad.append(f["name"])
    if bad:
        rep.violation(R8, ARCHIVE, "interior-mutability", "fields %s allow mutation through &self" % bad, "%s:%s" % (a["file"], a["line"]))
    else:
        rep.ok(R8, {"fields": [(f["name"], f["ty"]) for f in a["variants"][0]["fields"]]})
