//! mila-facts: a rustc_private driver that dumps the resolved program (MIR at opt-level 0,
//! types, constants, ADTs, resolved callees, dominators) of selected crates as one JSON file
//! per crate.  It never runs the analysed code.  Used as RUSTC_WORKSPACE_WRAPPER / RUSTC_WRAPPER.
//!
//! env: MILA_FACTS_OUT    directory to write <crate>.json into (required for dumping)
//!      MILA_FACTS_CRATES comma separated crate names to dump (default: mila)
#![feature(rustc_private)]
#![allow(clippy::all)]

extern crate rustc_abi;
extern crate rustc_data_structures;
extern crate rustc_driver;
extern crate rustc_hir;
extern crate rustc_index;
extern crate rustc_interface;
extern crate rustc_middle;
extern crate rustc_session;
extern crate rustc_span;

mod json;

use json::J;
use rustc_driver::Compilation;
use rustc_hir::def::DefKind;
use rustc_hir::def_id::{DefId, LocalDefId};
use rustc_middle::mir::{
    self, AggregateKind, AssertKind, BasicBlock, Body, Const, ConstValue, Operand, Place,
    ProjectionElem, Rvalue, StatementKind, TerminatorKind, UnwindAction,
};
use rustc_middle::ty::print::with_no_trimmed_paths;
use rustc_middle::ty::{self, Instance, Ty, TyCtxt, TypingEnv};
use rustc_span::Span;

struct Cb;

fn wanted_crates() -> Vec<String> {
    std::env::var("MILA_FACTS_CRATES")
        .unwrap_or_else(|_| "mila".to_string())
        .split(',')
        .map(|s| s.trim().replace('-', "_"))
        .filter(|s| !s.is_empty())
        .collect()
}

impl rustc_driver::Callbacks for Cb {
    fn after_analysis<'tcx>(
        &mut self,
        _compiler: &rustc_interface::interface::Compiler,
        tcx: TyCtxt<'tcx>,
    ) -> Compilation {
        let krate = tcx.crate_name(rustc_hir::def_id::LOCAL_CRATE).to_string();
        if !wanted_crates().contains(&krate) {
            return Compilation::Continue;
        }
        let out = match std::env::var("MILA_FACTS_OUT") {
            Ok(o) => o,
            Err(_) => return Compilation::Continue,
        };
        // Skip test harness builds (cfg(test)) – the library facts are what we want.
        if tcx.sess.opts.test {
            return Compilation::Continue;
        }
        let j = with_no_trimmed_paths!(dump_crate(tcx, &krate));
        let path = format!("{}/{}.json", out, krate);
        let mut s = String::with_capacity(1 << 22);
        j.write(&mut s);
        std::fs::write(&path, s).expect("write facts");
        Compilation::Continue
    }
}

fn main() {
    let mut args: Vec<String> = std::env::args().collect();
    // Used as a cargo wrapper: argv[1] is the path of the real rustc – drop it.
    if args.len() > 1 && (args[1].ends_with("rustc") || args[1].contains("/rustc")) {
        args.remove(1);
    }
    rustc_driver::run_compiler(&args, &mut Cb);
}

// ------------------------------------------------------------------------------------------

fn id_of(tcx: TyCtxt<'_>, d: DefId) -> String {
    format!("{}{}", tcx.crate_name(d.krate), tcx.def_path(d).to_string_no_crate_verbose())
}

fn name_of(tcx: TyCtxt<'_>, d: DefId) -> String {
    let k = tcx.crate_name(d.krate).to_string();
    let s = tcx.def_path_str(d);
    if d.is_local() {
        format!("{}::{}", k, s)
    } else {
        s
    }
}

fn span_line(tcx: TyCtxt<'_>, sp: Span) -> (String, i64) {
    let sm = tcx.sess.source_map();
    let sp = if sp.from_expansion() { sp.source_callsite() } else { sp };
    let loc = sm.lookup_char_pos(sp.lo());
    let f = match &loc.file.name {
        rustc_span::FileName::Real(r) => match r.local_path() {
            Some(p) => p.display().to_string(),
            None => format!("{:?}", r),
        },
        other => format!("{:?}", other),
    };
    (f, loc.line as i64)
}

fn ty_s(t: Ty<'_>) -> String {
    format!("{}", t)
}

fn dump_crate<'tcx>(tcx: TyCtxt<'tcx>, krate: &str) -> J {
    let mut bodies = Vec::new();
    let mut consts = Vec::new();
    for ld in tcx.mir_keys(()).iter().copied() {
        let d = ld.to_def_id();
        let kind = tcx.def_kind(d);
        match kind {
            DefKind::Fn | DefKind::AssocFn | DefKind::Closure => {
                if tcx.is_constructor(d) {
                    continue;
                }
                let body = tcx.optimized_mir(d);
                bodies.push(dump_body(tcx, ld, kind, body));
            }
            DefKind::Const { .. } | DefKind::AssocConst { .. } | DefKind::Static { .. } => {
                consts.push(dump_const_item(tcx, ld, kind));
            }
            _ => {}
        }
    }
    // ADTs and impls
    let mut adts = Vec::new();
    let mut impls = Vec::new();
    for id in tcx.hir_crate_items(()).definitions() {
        let d = id.to_def_id();
        match tcx.def_kind(d) {
            DefKind::Struct | DefKind::Enum | DefKind::Union => adts.push(dump_adt(tcx, d)),
            DefKind::Impl { of_trait } => {
                let self_ty = tcx.type_of(d).instantiate_identity().skip_norm_wip();
                let mut o = vec![
                    ("id", J::s(id_of(tcx, d))),
                    ("self_ty", J::s(ty_s(self_ty))),
                    ("of_trait", J::Bool(of_trait)),
                    ("automatically_derived", J::Bool(tcx.is_automatically_derived(d))),
                ];
                if of_trait {
                    let tr = tcx.impl_trait_ref(d).instantiate_identity().skip_norm_wip();
                    o.push(("trait", J::s(name_of(tcx, tr.def_id))));
                    o.push(("trait_ref", J::s(format!("{}", tr))));
                }
                let items: Vec<J> = tcx
                    .associated_item_def_ids(d)
                    .iter()
                    .map(|i| J::s(id_of(tcx, *i)))
                    .collect();
                o.push(("items", J::Arr(items)));
                impls.push(J::obj(o));
            }
            _ => {}
        }
    }
    J::obj(vec![
        ("crate", J::s(krate)),
        ("rustc", J::s(env!("CARGO_PKG_VERSION"))),
        ("overflow_checks", J::Bool(tcx.sess.overflow_checks())),
        ("bodies", J::Arr(bodies)),
        ("consts", J::Arr(consts)),
        ("adts", J::Arr(adts)),
        ("impls", J::Arr(impls)),
    ])
}

fn dump_adt<'tcx>(tcx: TyCtxt<'tcx>, d: DefId) -> J {
    let adt = tcx.adt_def(d);
    let mut variants = Vec::new();
    for (vi, v) in adt.variants().iter_enumerated() {
        let mut fields = Vec::new();
        for f in v.fields.iter() {
            let t = tcx.type_of(f.did).instantiate_identity().skip_norm_wip();
            fields.push(J::obj(vec![
                ("name", J::s(f.name.to_string())),
                ("ty", J::s(ty_s(t))),
                ("pub", J::Bool(f.vis.is_public())),
            ]));
        }
        let discr = if adt.is_enum() {
            J::Int(adt.discriminant_for_variant(tcx, vi).val as i128)
        } else {
            J::Null
        };
        variants.push(J::obj(vec![
            ("name", J::s(v.name.to_string())),
            ("idx", J::Int(vi.as_u32() as i128)),
            ("discr", discr),
            ("fields", J::Arr(fields)),
        ]));
    }
    let (file, line) = span_line(tcx, tcx.def_span(d));
    J::obj(vec![
        ("id", J::s(id_of(tcx, d))),
        ("name", J::s(name_of(tcx, d))),
        ("kind", J::s(if adt.is_enum() { "enum" } else if adt.is_struct() { "struct" } else { "union" })),
        ("pub", J::Bool(tcx.visibility(d).is_public())),
        ("file", J::s(file)),
        ("line", J::Int(line as i128)),
        ("variants", J::Arr(variants)),
    ])
}

fn dump_const_item<'tcx>(tcx: TyCtxt<'tcx>, ld: LocalDefId, kind: DefKind) -> J {
    let d = ld.to_def_id();
    let t = tcx.type_of(d).instantiate_identity().skip_norm_wip();
    let mut o = vec![
        ("id", J::s(id_of(tcx, d))),
        ("name", J::s(name_of(tcx, d))),
        ("kind", J::s(format!("{:?}", kind))),
        ("ty", J::s(ty_s(t))),
    ];
    let val = match kind {
        DefKind::Static { .. } => match tcx.eval_static_initializer(d) {
            Ok(alloc) => {
                let a = alloc.inner();
                let bytes = a.inspect_with_uninit_and_ptr_outside_interpreter(0..a.len());
                // follow one level of pointers (e.g. `static T: &[u8] = &[..]`)
                let mut ptrs = Vec::new();
                for (off, prov) in a.provenance().ptrs().iter() {
                    let aid = prov.alloc_id();
                    if let Some(rustc_middle::mir::interpret::GlobalAlloc::Memory(t)) = tcx.try_get_global_alloc(aid) {
                        let ta = t.inner();
                        let tb = ta.inspect_with_uninit_and_ptr_outside_interpreter(0..ta.len());
                        ptrs.push(J::obj(vec![("offset", J::Int(off.bytes() as i128)), ("bytes", J::bytes(tb))]));
                    }
                }
                J::obj(vec![("kind", J::s("bytes")), ("bytes", J::bytes(bytes)), ("ptrs", J::Arr(ptrs))])
            }
            Err(_) => J::Null,
        },
        _ => {
            if tcx.generics_of(d).requires_monomorphization(tcx) {
                J::Null
            } else {
                match tcx.const_eval_poly(d) {
                    Ok(cv) => const_value(tcx, cv, t),
                    Err(_) => J::Null,
                }
            }
        }
    };
    o.push(("val", val));
    J::obj(o)
}

fn const_value<'tcx>(tcx: TyCtxt<'tcx>, cv: ConstValue, t: Ty<'tcx>) -> J {
    match cv {
        ConstValue::Scalar(rustc_middle::mir::interpret::Scalar::Int(i)) => {
            let size = i.size();
            let bits = i.to_bits(size);
            let v: i128 = match t.kind() {
                ty::Int(_) => size.sign_extend(bits) as i128,
                _ => bits as i128,
            };
            let kind = match t.kind() {
                ty::Bool => "bool",
                ty::Char => "char",
                ty::Int(_) | ty::Uint(_) => "int",
                ty::Float(_) => "float_bits",
                _ => "scalar",
            };
            J::obj(vec![("kind", J::s(kind)), ("v", J::Int(v)), ("size", J::Int(size.bytes() as i128))])
        }
        ConstValue::Scalar(rustc_middle::mir::interpret::Scalar::Ptr(p, _)) => {
            let (prov, off) = p.into_raw_parts();
            let aid = prov.alloc_id();
            match tcx.try_get_global_alloc(aid) {
                Some(rustc_middle::mir::interpret::GlobalAlloc::Memory(alloc)) => {
                    let a = alloc.inner();
                    let start = off.bytes() as usize;
                    let bytes = a.inspect_with_uninit_and_ptr_outside_interpreter(start..a.len());
                    J::obj(vec![("kind", J::s("ptr_bytes")), ("bytes", J::bytes(bytes))])
                }
                Some(rustc_middle::mir::interpret::GlobalAlloc::Static(sd)) => {
                    J::obj(vec![("kind", J::s("ptr_static")), ("def", J::s(id_of(tcx, sd)))])
                }
                Some(rustc_middle::mir::interpret::GlobalAlloc::Function { instance }) => {
                    J::obj(vec![("kind", J::s("ptr_fn")), ("def", J::s(id_of(tcx, instance.def_id())))])
                }
                _ => J::obj(vec![("kind", J::s("ptr_other"))]),
            }
        }
        ConstValue::ZeroSized => J::obj(vec![("kind", J::s("zst"))]),
        ConstValue::Slice { alloc_id, meta } => {
            let alloc = tcx.global_alloc(alloc_id).unwrap_memory();
            let a = alloc.inner();
            let is_str = match t.kind() {
                ty::Ref(_, inner, _) => inner.is_str(),
                _ => false,
            };
            let elem_size: usize = match t.kind() {
                ty::Ref(_, inner, _) => match inner.kind() {
                    ty::Slice(e) => tcx
                        .layout_of(TypingEnv::fully_monomorphized().as_query_input(*e))
                        .map(|l| l.size.bytes() as usize)
                        .unwrap_or(1),
                    _ => 1,
                },
                _ => 1,
            };
            let n = (meta as usize) * elem_size;
            let n = n.min(a.len());
            let bytes = a.inspect_with_uninit_and_ptr_outside_interpreter(0..n);
            if is_str {
                J::obj(vec![
                    ("kind", J::s("str")),
                    ("v", J::s(String::from_utf8_lossy(bytes).to_string())),
                ])
            } else {
                J::obj(vec![("kind", J::s("slice_bytes")), ("bytes", J::bytes(bytes)), ("len", J::Int(meta as i128))])
            }
        }
        ConstValue::Indirect { alloc_id, offset } => {
            let alloc = tcx.global_alloc(alloc_id).unwrap_memory();
            let a = alloc.inner();
            let start = offset.bytes() as usize;
            let bytes = a.inspect_with_uninit_and_ptr_outside_interpreter(start..a.len());
            J::obj(vec![("kind", J::s("bytes")), ("bytes", J::bytes(bytes))])
        }
    }
}

fn dump_body<'tcx>(tcx: TyCtxt<'tcx>, ld: LocalDefId, kind: DefKind, body: &Body<'tcx>) -> J {
    let d = ld.to_def_id();
    let (file, line) = span_line(tcx, tcx.def_span(d));
    let vis = match kind {
        DefKind::Fn | DefKind::AssocFn => tcx.visibility(d).is_public(),
        _ => false,
    };
    let typing_env = TypingEnv::post_analysis(tcx, d);
    let mut locals = Vec::new();
    let mut names: Vec<Option<String>> = vec![None; body.local_decls.len()];
    let mut upvar_names: Vec<(usize, String)> = Vec::new();
    for vdi in &body.var_debug_info {
        if let mir::VarDebugInfoContents::Place(p) = &vdi.value {
            if p.projection.is_empty() {
                names[p.local.as_usize()] = Some(vdi.name.to_string());
            } else if p.local.as_usize() == 1 {
                // closure upvar: _1.field or (*_1).field ...
                for e in p.projection.iter() {
                    if let ProjectionElem::Field(f, _) = e {
                        upvar_names.push((f.as_usize(), vdi.name.to_string()));
                        break;
                    }
                }
            }
        }
    }
    for (i, decl) in body.local_decls.iter_enumerated() {
        locals.push(J::obj(vec![
            ("ty", J::s(ty_s(decl.ty))),
            ("name", match &names[i.as_usize()] {
                Some(n) => J::s(n.clone()),
                None => J::Null,
            }),
            ("mut", J::Bool(decl.mutability.is_mut())),
        ]));
    }
    let cx = Cx { tcx, body, typing_env };
    let doms = body.basic_blocks.dominators();
    let mut blocks = Vec::new();
    let mut idom = Vec::new();
    for (bb, data) in body.basic_blocks.iter_enumerated() {
        let mut stmts = Vec::new();
        for st in &data.statements {
            if let Some(j) = cx.stmt(st) {
                stmts.push(j);
            }
        }
        let term = cx.term(data.terminator());
        blocks.push(J::obj(vec![
            ("cleanup", J::Bool(data.is_cleanup)),
            ("stmts", J::Arr(stmts)),
            ("term", term),
        ]));
        idom.push(match doms.immediate_dominator(bb) {
            Some(b) => J::Int(b.as_u32() as i128),
            None => J::Null,
        });
    }
    let parent = if matches!(kind, DefKind::Closure) {
        J::s(id_of(tcx, tcx.typeck_root_def_id(d)))
    } else {
        J::Null
    };
    let sig_self = match kind {
        DefKind::AssocFn => {
            let ai = tcx.associated_item(d);
            if ai.is_method() && body.arg_count >= 1 {
                J::s(ty_s(body.local_decls[mir::Local::from_usize(1)].ty))
            } else {
                J::Null
            }
        }
        _ => J::Null,
    };
    let impl_of = match kind {
        DefKind::AssocFn => match tcx.impl_of_assoc(d) {
            Some(i) => J::s(id_of(tcx, i)),
            None => J::Null,
        },
        _ => J::Null,
    };
    J::obj(vec![
        ("id", J::s(id_of(tcx, d))),
        ("name", J::s(name_of(tcx, d))),
        ("kind", J::s(format!("{:?}", kind))),
        ("pub", J::Bool(vis)),
        ("file", J::s(file)),
        ("line", J::Int(line as i128)),
        ("argc", J::Int(body.arg_count as i128)),
        ("parent", parent),
        ("self_ty", sig_self),
        ("impl", impl_of),
        ("upvars", J::Arr(upvar_names.into_iter().map(|(i, n)| J::Arr(vec![J::Int(i as i128), J::s(n)])).collect())),
        ("locals", J::Arr(locals)),
        ("blocks", J::Arr(blocks)),
        ("idom", J::Arr(idom)),
    ])
}

struct Cx<'a, 'tcx> {
    tcx: TyCtxt<'tcx>,
    body: &'a Body<'tcx>,
    typing_env: TypingEnv<'tcx>,
}

fn bbj(b: BasicBlock) -> J {
    J::Int(b.as_u32() as i128)
}

impl<'a, 'tcx> Cx<'a, 'tcx> {
    fn line(&self, sp: Span) -> J {
        J::Int(span_line(self.tcx, sp).1 as i128)
    }

    fn place(&self, p: &Place<'tcx>) -> J {
        let mut proj = Vec::new();
        let mut cur_ty = mir::PlaceTy::from_ty(self.body.local_decls[p.local].ty);
        for e in p.projection.iter() {
            let j = match e {
                ProjectionElem::Deref => J::s("deref"),
                ProjectionElem::Field(f, t) => {
                    let mut o = vec![("f", J::Int(f.as_u32() as i128)), ("ty", J::s(ty_s(t)))];
                    if let ty::Adt(adt, _) = cur_ty.ty.kind() {
                        let vi = cur_ty.variant_index.unwrap_or(rustc_abi::FIRST_VARIANT);
                        if (vi.as_usize()) < adt.variants().len() {
                            let v = adt.variant(vi);
                            if f.as_usize() < v.fields.len() {
                                o.push(("name", J::s(v.fields[f].name.to_string())));
                            }
                        }
                        o.push(("adt", J::s(name_of(self.tcx, adt.did()))));
                    } else if let ty::Closure(..) = cur_ty.ty.kind() {
                        o.push(("adt", J::s("closure")));
                    } else if let ty::Tuple(..) = cur_ty.ty.kind() {
                        o.push(("adt", J::s("tuple")));
                    }
                    J::obj(o)
                }
                ProjectionElem::Index(l) => J::obj(vec![("idx", J::Int(l.as_u32() as i128))]),
                ProjectionElem::ConstantIndex { offset, min_length, from_end } => J::obj(vec![
                    ("cidx", J::Int(offset as i128)),
                    ("min", J::Int(min_length as i128)),
                    ("from_end", J::Bool(from_end)),
                ]),
                ProjectionElem::Subslice { from, to, from_end } => J::obj(vec![
                    ("sub", J::Arr(vec![J::Int(from as i128), J::Int(to as i128)])),
                    ("from_end", J::Bool(from_end)),
                ]),
                ProjectionElem::Downcast(name, vi) => J::obj(vec![
                    ("dc", match name {
                        Some(n) => J::s(n.to_string()),
                        None => J::Null,
                    }),
                    ("vi", J::Int(vi.as_u32() as i128)),
                ]),
                ProjectionElem::OpaqueCast(_) => J::s("opaque_cast"),
                ProjectionElem::UnwrapUnsafeBinder(_) => J::s("unwrap_binder"),
            };
            proj.push(j);
            cur_ty = cur_ty.projection_ty(self.tcx, e);
        }
        J::obj(vec![("l", J::Int(p.local.as_u32() as i128)), ("p", J::Arr(proj))])
    }

    fn fn_ref(&self, def_id: DefId, args: ty::GenericArgsRef<'tcx>) -> Vec<(&'static str, J)> {
        let tcx = self.tcx;
        let mut o = vec![
            ("def", J::s(name_of(tcx, def_id))),
            ("def_id", J::s(id_of(tcx, def_id))),
            ("gargs", J::Arr(args.iter().map(|a| J::s(format!("{}", a))).collect())),
        ];
        // resolve through trait selection where possible
        let res = std::panic::catch_unwind(std::panic::AssertUnwindSafe(|| {
            Instance::try_resolve(tcx, self.typing_env, def_id, args)
        }));
        if let Ok(Ok(Some(inst))) = res {
            let rd = inst.def_id();
            o.push(("res", J::s(name_of(tcx, rd))));
            o.push(("res_id", J::s(id_of(tcx, rd))));
            o.push(("res_gargs", J::Arr(inst.args.iter().map(|a| J::s(format!("{}", a))).collect())));
            let k = match inst.def {
                ty::InstanceKind::Item(_) => "item",
                ty::InstanceKind::Intrinsic(_) => "intrinsic",
                ty::InstanceKind::Virtual(..) => "virtual",
                ty::InstanceKind::ClosureOnceShim { .. } => "closure_once_shim",
                ty::InstanceKind::FnPtrShim(..) => "fnptr_shim",
                ty::InstanceKind::DropGlue(..) => "drop_glue",
                ty::InstanceKind::CloneShim(..) => "clone_shim",
                _ => "other",
            };
            o.push(("res_kind", J::s(k)));
        }
        o
    }

    fn constant(&self, c: &mir::ConstOperand<'tcx>) -> J {
        let tcx = self.tcx;
        let t = c.const_.ty();
        let mut o: Vec<(&'static str, J)> = vec![("ty", J::s(ty_s(t)))];
        match t.kind() {
            ty::FnDef(def_id, args) => {
                o.push(("kind", J::s("fn")));
                o.extend(self.fn_ref(*def_id, args));
                return J::obj(o);
            }
            _ => {}
        }
        // named constant / static / promoted?
        match c.const_ {
            Const::Unevaluated(uv, _) => {
                if let Some(p) = uv.promoted {
                    o.push(("promoted", J::Int(p.as_u32() as i128)));
                } else {
                    o.push(("item", J::s(name_of(tcx, uv.def))));
                }
            }
            _ => {}
        }
        let ev = std::panic::catch_unwind(std::panic::AssertUnwindSafe(|| {
            c.const_.eval(tcx, self.typing_env, c.span)
        }));
        match ev {
            Ok(Ok(cv)) => {
                // pointer to a static?
                o.push(("val", const_value(tcx, cv, t)));
            }
            _ => {
                o.push(("val", J::Null));
            }
        }
        o.push(("dbg", J::s(format!("{}", c.const_))));
        J::obj(o)
    }

    fn operand(&self, op: &Operand<'tcx>) -> J {
        match op {
            Operand::Copy(p) => J::obj(vec![("c", self.place(p))]),
            Operand::Move(p) => J::obj(vec![("m", self.place(p))]),
            Operand::Constant(c) => J::obj(vec![("k", self.constant(c))]),
            Operand::RuntimeChecks(rc) => J::obj(vec![("rt", J::s(format!("{:?}", rc)))]),
        }
    }

    fn rvalue(&self, rv: &Rvalue<'tcx>) -> J {
        match rv {
            Rvalue::Use(op, ..) => J::obj(vec![("k", J::s("use")), ("a", self.operand(op))]),
            Rvalue::Repeat(op, n) => J::obj(vec![
                ("k", J::s("repeat")),
                ("a", self.operand(op)),
                ("n", match n.try_to_target_usize(self.tcx) {
                    Some(v) => J::Int(v as i128),
                    None => J::Null,
                }),
            ]),
            Rvalue::Ref(_, bk, p) => J::obj(vec![
                ("k", J::s("ref")),
                ("mut", J::Bool(matches!(bk, mir::BorrowKind::Mut { .. }))),
                ("place", self.place(p)),
            ]),
            Rvalue::RawPtr(k, p) => J::obj(vec![
                ("k", J::s("rawptr")),
                ("mut", J::Bool(matches!(k, mir::RawPtrKind::Mut))),
                ("place", self.place(p)),
            ]),
            Rvalue::Cast(ck, op, t) => J::obj(vec![
                ("k", J::s("cast")),
                ("ck", J::s(format!("{:?}", ck))),
                ("a", self.operand(op)),
                ("from", J::s(ty_s(op.ty(self.body, self.tcx)))),
                ("ty", J::s(ty_s(*t))),
            ]),
            Rvalue::BinaryOp(op, ab) => J::obj(vec![
                ("k", J::s("bin")),
                ("op", J::s(format!("{:?}", op))),
                ("a", self.operand(&ab.0)),
                ("b", self.operand(&ab.1)),
                ("aty", J::s(ty_s(ab.0.ty(self.body, self.tcx)))),
            ]),
            Rvalue::UnaryOp(op, a) => J::obj(vec![
                ("k", J::s("un")),
                ("op", J::s(format!("{:?}", op))),
                ("a", self.operand(a)),
                ("aty", J::s(ty_s(a.ty(self.body, self.tcx)))),
            ]),
            Rvalue::Discriminant(p) => J::obj(vec![
                ("k", J::s("discr")),
                ("place", self.place(p)),
                ("adt", J::s(ty_s(p.ty(self.body, self.tcx).ty))),
            ]),
            Rvalue::Aggregate(ak, fields) => {
                let mut o = vec![("k", J::s("agg"))];
                match &**ak {
                    AggregateKind::Array(t) => {
                        o.push(("ak", J::s("array")));
                        o.push(("ty", J::s(ty_s(*t))));
                    }
                    AggregateKind::Tuple => o.push(("ak", J::s("tuple"))),
                    AggregateKind::Adt(did, vi, _, _, _) => {
                        o.push(("ak", J::s("adt")));
                        o.push(("def", J::s(name_of(self.tcx, *did))));
                        let adt = self.tcx.adt_def(*did);
                        let v = adt.variant(*vi);
                        o.push(("variant", J::s(v.name.to_string())));
                        o.push(("vi", J::Int(vi.as_u32() as i128)));
                        o.push((
                            "field_names",
                            J::Arr(v.fields.iter().map(|f| J::s(f.name.to_string())).collect()),
                        ));
                    }
                    AggregateKind::Closure(did, _) => {
                        o.push(("ak", J::s("closure")));
                        o.push(("def", J::s(id_of(self.tcx, *did))));
                    }
                    AggregateKind::RawPtr(..) => o.push(("ak", J::s("rawptr"))),
                    _ => o.push(("ak", J::s("other"))),
                }
                o.push(("fields", J::Arr(fields.iter().map(|f| self.operand(f)).collect())));
                J::obj(o)
            }
            Rvalue::CopyForDeref(p) => J::obj(vec![("k", J::s("use")), ("a", J::obj(vec![("c", self.place(p))]))]),
            Rvalue::ThreadLocalRef(d) => J::obj(vec![("k", J::s("tls")), ("def", J::s(id_of(self.tcx, *d)))]),
            Rvalue::WrapUnsafeBinder(..) => J::obj(vec![("k", J::s("other")), ("dbg", J::s(format!("{:?}", rv)))]),
        }
    }

    fn stmt(&self, st: &mir::Statement<'tcx>) -> Option<J> {
        match &st.kind {
            StatementKind::Assign(b) => {
                let (p, rv) = &**b;
                Some(J::obj(vec![
                    ("k", J::s("assign")),
                    ("lhs", self.place(p)),
                    ("rv", self.rvalue(rv)),
                    ("lty", J::s(ty_s(p.ty(self.body, self.tcx).ty))),
                    ("line", self.line(st.source_info.span)),
                    ("exp", J::Bool(st.source_info.span.from_expansion())),
                ]))
            }
            StatementKind::SetDiscriminant { place, variant_index } => Some(J::obj(vec![
                ("k", J::s("setdiscr")),
                ("lhs", self.place(place)),
                ("vi", J::Int(variant_index.as_u32() as i128)),
                ("line", self.line(st.source_info.span)),
            ])),
            StatementKind::Intrinsic(i) => Some(J::obj(vec![
                ("k", J::s("intrinsic")),
                ("dbg", J::s(format!("{:?}", i))),
                ("line", self.line(st.source_info.span)),
            ])),
            _ => None,
        }
    }

    fn unwind(&self, u: &UnwindAction) -> J {
        match u {
            UnwindAction::Cleanup(b) => bbj(*b),
            _ => J::Null,
        }
    }

    fn term(&self, t: &mir::Terminator<'tcx>) -> J {
        let sp = t.source_info.span;
        let mut o: Vec<(&'static str, J)> = Vec::new();
        match &t.kind {
            TerminatorKind::Goto { target } => {
                o.push(("k", J::s("goto")));
                o.push(("t", bbj(*target)));
            }
            TerminatorKind::SwitchInt { discr, targets } => {
                o.push(("k", J::s("switch")));
                o.push(("d", self.operand(discr)));
                o.push(("dty", J::s(ty_s(discr.ty(self.body, self.tcx)))));
                o.push((
                    "targets",
                    J::Arr(targets.iter().map(|(v, b)| J::Arr(vec![J::Int(v as i128), bbj(b)])).collect()),
                ));
                o.push(("otherwise", bbj(targets.otherwise())));
            }
            TerminatorKind::UnwindResume => o.push(("k", J::s("resume"))),
            TerminatorKind::UnwindTerminate(_) => o.push(("k", J::s("terminate"))),
            TerminatorKind::Return => o.push(("k", J::s("ret"))),
            TerminatorKind::Unreachable => o.push(("k", J::s("unreachable"))),
            TerminatorKind::Drop { place, target, unwind, .. } => {
                o.push(("k", J::s("drop")));
                o.push(("place", self.place(place)));
                o.push(("t", bbj(*target)));
                o.push(("unwind", self.unwind(unwind)));
            }
            TerminatorKind::Call { func, args, destination, target, unwind, fn_span, .. } => {
                o.push(("k", J::s("call")));
                o.push(("fn", self.operand(func)));
                o.push(("args", J::Arr(args.iter().map(|a| self.operand(&a.node)).collect())));
                o.push(("dest", self.place(destination)));
                o.push(("dty", J::s(ty_s(destination.ty(self.body, self.tcx).ty))));
                o.push(("t", match target {
                    Some(b) => bbj(*b),
                    None => J::Null,
                }));
                o.push(("unwind", self.unwind(unwind)));
                o.push(("exp", J::Bool(fn_span.from_expansion() || sp.from_expansion())));
            }
            TerminatorKind::Assert { cond, expected, msg, target, unwind } => {
                o.push(("k", J::s("assert")));
                o.push(("cond", self.operand(cond)));
                o.push(("expected", J::Bool(*expected)));
                let m = match &**msg {
                    AssertKind::BoundsCheck { len, index } => J::obj(vec![
                        ("kind", J::s("BoundsCheck")),
                        ("len", self.operand(len)),
                        ("index", self.operand(index)),
                    ]),
                    AssertKind::Overflow(op, a, b) => J::obj(vec![
                        ("kind", J::s("Overflow")),
                        ("op", J::s(format!("{:?}", op))),
                        ("a", self.operand(a)),
                        ("b", self.operand(b)),
                        ("aty", J::s(ty_s(a.ty(self.body, self.tcx)))),
                    ]),
                    AssertKind::OverflowNeg(a) => {
                        J::obj(vec![("kind", J::s("OverflowNeg")), ("a", self.operand(a))])
                    }
                    AssertKind::DivisionByZero(a) => {
                        J::obj(vec![("kind", J::s("DivisionByZero")), ("a", self.operand(a))])
                    }
                    AssertKind::RemainderByZero(a) => {
                        J::obj(vec![("kind", J::s("RemainderByZero")), ("a", self.operand(a))])
                    }
                    AssertKind::MisalignedPointerDereference { .. } => {
                        J::obj(vec![("kind", J::s("Misaligned"))])
                    }
                    AssertKind::NullPointerDereference => J::obj(vec![("kind", J::s("NullPtr"))]),
                    other => J::obj(vec![("kind", J::s("Other")), ("dbg", J::s(format!("{:?}", other)))]),
                };
                o.push(("msg", m));
                o.push(("t", bbj(*target)));
                o.push(("unwind", self.unwind(unwind)));
                o.push(("exp", J::Bool(sp.from_expansion())));
            }
            TerminatorKind::FalseEdge { real_target, .. } => {
                o.push(("k", J::s("goto")));
                o.push(("t", bbj(*real_target)));
            }
            TerminatorKind::FalseUnwind { real_target, .. } => {
                o.push(("k", J::s("goto")));
                o.push(("t", bbj(*real_target)));
            }
            other => {
                o.push(("k", J::s("other")));
                o.push(("dbg", J::s(format!("{:?}", other))));
            }
        }
        o.push(("line", self.line(sp)));
        J::obj(o)
    }
}
