#!/bin/sh
# Build the fact-extraction driver (offline; nightly toolchain with rustc-dev is pre-installed).
set -e
cd "$(dirname "$0")/driver"
CARGO_NET_OFFLINE=true cargo +nightly build --release --offline
test -x target/release/mila-facts
echo "setup ok"
