#!/usr/bin/env python3
"""trymut.py <pids comma-sep> <file> <old> <new> — apply a textual mutation to a scratch copy of /repo
and run the checks on it (development aid; the registered self-tests live in selftest/)."""
import os, shutil, subprocess, sys, tempfile
pids, f, old, new = sys.argv[1:5]
tmp = tempfile.mkdtemp(prefix="mut-")
try:
    shutil.copytree("/repo/src", tmp + "/src")
    for x in ("Cargo.toml", "Cargo.lock"):
        shutil.copy("/repo/" + x, tmp + "/" + x)
    p = os.path.join(tmp, f)
    s = open(p).read()
    if s.count(old) < 1:
        print("pattern not found"); sys.exit(3)
    s = s.replace(old, new, 1)
    open(p, "w").write(s)
    for pid in pids.split(","):
        r = subprocess.run(["/verif/check", pid, "--repo", tmp, "--no-evidence"], stdout=subprocess.PIPE, stderr=subprocess.STDOUT)
        out = r.stdout.decode()
        lines = [l for l in out.splitlines() if not l.startswith("VIOLATION")]
        print("[%s] rc=%d" % (pid, r.returncode))
        for l in lines[:8]:
            print("   ", l[:260])
finally:
    shutil.rmtree(tmp, ignore_errors=True)
