#!/usr/bin/env python3
"""selftest.py <pid>[,<pid>...] : replay the stored seeded faults / preserving rewrites of selftest/<pid>.json"""
import sys, json
sys.path.insert(0, "/verif/analyses")
import thorough
rc = 0
for pid in sys.argv[1].split(","):
    res = thorough.selftests(pid, "/repo")
    print(pid, json.dumps(res)[:3000] if not isinstance(res, (list, tuple)) else "")
    if isinstance(res, (list, tuple)):
        for r in res:
            print("   ", r)
