import sys
#!/usr/bin/env python3
"""Regenerate MANIFEST.json from tools/manifest_src.py (single source of truth for claims)."""
import json, os, sys
sys.path.insert(0, os.path.dirname(os.path.abspath(__file__)))
from manifest_src import CHECKS, NOT_APPLICABLE, SOURCE_COMMITS
VERIF = os.path.dirname(os.path.dirname(os.path.abspath(__file__)))
checks = []
for pid, c in sorted(CHECKS.items()):
    checks.append({
        "property_id": pid,
        "quick_cmd": "./check %s --tier quick" % pid,
        "thorough_cmd": "./check %s --tier thorough" % pid,
        "evidence_file": "/verif/evidence/%s.json" % pid,
        "replay_cmd_template": "./check %s --replay {path}" % pid,
        "engine": "analyses",
        "level_claimed": {"category": "other", "text": c["text"], "design_ref": "DESIGN.md §4 " + pid},
        "level_note": c.get("note", "trusts rustc MIR construction (opt-level 0), the fact driver, and the summaries of std/indexmap/encoding_rs/byteorder callees listed in analyses/summ.py"),
        "technique": c["technique"],
    })
m = {
    "version": 1,
    "setup_cmd": "./setup.sh",
    "hooks": {
        "guard": "mila_verif",
        "enable": "none needed: static analysis reads rustc's MIR of the unmodified library through a RUSTC_WORKSPACE_WRAPPER driver run on a snapshot of /repo; no hook or instrumentation exists in /repo",
        "baseline_off_cmd": "cd /repo && cargo test --workspace --no-fail-fast --offline",
        "source_commits": SOURCE_COMMITS,
        "add_only": True,
    },
    "engines": [
        {"name": "mila-facts", "path": "driver/", "serves_properties": sorted(CHECKS), "kind_free_text": "rustc_private driver (nightly) dumping MIR at opt-level 0, types, evaluated constants, resolved callees, dominators as JSON; never runs mila"},
        {"name": "analyses", "path": "analyses/", "serves_properties": sorted(CHECKS), "kind_free_text": "Python static analyses over the MIR facts: CFG/dominance/control dependence, path-sensitive term propagation on loop-cut paths, decision tables over finite ordering classes, field-effect sets, who-may-call, affine slicing, sort-specification extraction"},
    ],
    "checks": checks,
    "not_applicable": [{"property_id": k, "reason": v} for k, v in sorted(NOT_APPLICABLE.items())],
    "notes": "Technique family: static analysis only. Each check decides named structural clauses (necessary conditions) of its property for all inputs from /repo's current source; value-level remainders are listed under assumptions in the evidence. exit 0 = no rule has a witness against the property; exit 1 + VIOLATION = a witness fact; INCONCLUSIVE lines (never a VIOLATION line) when a rule no longer recognises its code: exit 2 on the confirmed tree (analyses/confirmed_tree.json) and for failures of the machinery itself, exit 0 on a changed tree unless --strict (DESIGN.md 9.7).",
}
json.dump(m, open(os.path.join(VERIF, "MANIFEST.json"), "w"), indent=1)
# the tree the rule instances are confirmed on: refresh after every fix commit in /repo (and a full green run)
import subprocess
sys.path.insert(0, os.path.join(VERIF, "analyses"))
import extract
head = subprocess.run(["git", "-C", "/repo", "rev-parse", "--short", "HEAD"], stdout=subprocess.PIPE).stdout.decode().strip()
dirty = subprocess.run(["git", "-C", "/repo", "status", "--porcelain"], stdout=subprocess.PIPE).stdout.decode().strip()
if not dirty:
    json.dump({"src_hash": extract.src_hash("/repo"), "repo_head": head,
               "note": "sources on which every rule instance and floor was confirmed; on this tree an undecided rule is a failure of the machinery (exit 2)"},
              open(os.path.join(VERIF, "analyses", "confirmed_tree.json"), "w"), indent=1)
print("wrote MANIFEST.json with", len(checks), "checks,", len(m["not_applicable"]), "not applicable")
