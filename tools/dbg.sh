#!/bin/bash
# dbg.sh <refactor-or-seed dir name | diff path> : scratch copy with the diff applied; prints path
f="$1"; [ -f "$f" ] || f=/verif/refactors/$1/patch.diff; [ -f "$f" ] || f=/verif/seeded/$1/patch.diff
f=$(readlink -f "$f")
d=$(mktemp -d /tmp/scr-XXXX); cp -r /repo/src /repo/Cargo.toml /repo/Cargo.lock $d/; patch -p1 -s -d $d -i "$f" || exit 3; echo $d
