#!/usr/bin/env python3
"""ref_matrix.py [name-filter] [--pids C01,C02]: run the checks against every stored behaviour-preserving
change (refactors/<id>/patch.diff) on scratch copies.  rc=1 anywhere is a false alarm."""
import os, shutil, subprocess, sys, tempfile, json
from concurrent.futures import ThreadPoolExecutor
flt = [a for a in sys.argv[1:] if not a.startswith("--")]
pids_arg = [a.split("=", 1)[1] for a in sys.argv[1:] if a.startswith("--pids=")]
ALL = ["C%02d" % i for i in range(1, 21)]
pids = pids_arg[0].split(",") if pids_arg else ALL
verbose = "--v" in sys.argv
root = "/verif/refactors"
names = sorted(n for n in os.listdir(root) if not flt or any(f in n for f in flt))

def one(name):
    tmp = tempfile.mkdtemp(prefix="ref-")
    try:
        shutil.copytree("/repo/src", tmp + "/src")
        for x in ("Cargo.toml", "Cargo.lock"):
            shutil.copy("/repo/" + x, tmp + "/" + x)
        r = subprocess.run(["patch", "-p1", "-s", "-d", tmp, "-i", "%s/%s/patch.diff" % (root, name)], stdout=subprocess.PIPE, stderr=subprocess.STDOUT)
        if r.returncode != 0:
            return name, {"patch": 3}, {}
        res, outs = {}, {}
        for pid in pids:
            r = subprocess.run(["/verif/check", pid, "--repo", tmp, "--no-evidence", "--strict"], stdout=subprocess.PIPE, stderr=subprocess.STDOUT)
            if r.returncode != 0:
                res[pid] = r.returncode
                outs[pid] = [l for l in r.stdout.decode().splitlines() if not l.startswith("VIOLATION ") and not l.startswith("KNOWN-FINDING")][:6]
        return name, res, outs
    finally:
        shutil.rmtree(tmp, ignore_errors=True)

with ThreadPoolExecutor(6) as ex:
    results = list(ex.map(one, names))
n1 = n2 = 0
for name, res, outs in results:
    print("%-8s %s" % (name, "silent" if not res else " ".join("%s=rc%d" % kv for kv in sorted(res.items()))))
    n1 += any(v == 1 for v in res.values())
    n2 += (not any(v == 1 for v in res.values())) and any(v == 2 for v in res.values())
    if verbose:
        for p, ls in outs.items():
            for l in ls:
                print("      [%s] %s" % (p, l[:300]))
print("%d change(s): %d false alarm (rc=1), %d inconclusive only, %d silent" % (len(results), n1, n2, len(results) - n1 - n2))
