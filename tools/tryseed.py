#!/usr/bin/env python3
"""tryseed.py <diff> <pid>[,<pid>...] : run checks against a seeded change on a scratch copy of /repo."""
import os, shutil, subprocess, sys, tempfile
diff, pids = sys.argv[1], sys.argv[2]
tmp = tempfile.mkdtemp(prefix="seed-")
try:
    shutil.copytree("/repo/src", tmp + "/src")
    for x in ("Cargo.toml", "Cargo.lock"):
        shutil.copy("/repo/" + x, tmp + "/" + x)
    r = subprocess.run(["patch", "-p1", "-s", "-d", tmp, "-i", diff], stdout=subprocess.PIPE, stderr=subprocess.STDOUT)
    if r.returncode != 0:
        print("patch failed:", r.stdout.decode()[:300]); sys.exit(3)
    for pid in pids.split(","):
        r = subprocess.run(["/verif/check", pid, "--repo", tmp, "--no-evidence", "--strict"], stdout=subprocess.PIPE, stderr=subprocess.STDOUT)
        out = [l for l in r.stdout.decode().splitlines() if not l.startswith("VIOLATION")]
        print("[%s] rc=%d" % (pid, r.returncode))
        for l in out[:6]:
            print("   ", l[:300])
finally:
    shutil.rmtree(tmp, ignore_errors=True)
