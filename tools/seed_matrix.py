#!/usr/bin/env python3
"""Run every stored seeded change (/verif/seeded/*/patch.diff) against its owner check (and, with --all,
against all checks) on scratch copies; record the outcome in seeded/<id>/meta.json and print a matrix."""
import concurrent.futures, json, os, shutil, subprocess, sys, tempfile
VERIF = os.path.dirname(os.path.dirname(os.path.abspath(__file__)))
ALL = "--all" in sys.argv
pids_all = ["C%02d" % i for i in range(1, 21)]

def run(seed):
    d = os.path.join(VERIF, "seeded", seed)
    meta = json.load(open(d + "/meta.json"))
    owner = meta.get("breaks", meta["property"])
    tmp = tempfile.mkdtemp(prefix="seedm-")
    try:
        shutil.copytree("/repo/src", tmp + "/src")
        for x in ("Cargo.toml", "Cargo.lock"):
            shutil.copy("/repo/" + x, tmp + "/" + x)
        r = subprocess.run(["patch", "-p1", "-s", "-d", tmp, "-i", d + "/patch.diff"], stdout=subprocess.PIPE, stderr=subprocess.STDOUT)
        if r.returncode:
            return seed, owner, {"error": "patch failed"}
        res = {}
        for pid in (pids_all if ALL else [owner]):
            r = subprocess.run([os.path.join(VERIF, "check"), pid, "--repo", tmp, "--no-evidence", "--strict"], stdout=subprocess.PIPE, stderr=subprocess.STDOUT)
            out = r.stdout.decode()
            rules = sorted(set(l.split("rule ")[1].split(" ")[0] for l in out.splitlines() if l.strip().startswith("rule ")))
            res[pid] = {"rc": r.returncode, "rules": rules}
        return seed, owner, res
    finally:
        shutil.rmtree(tmp, ignore_errors=True)

seeds = sorted(os.listdir(os.path.join(VERIF, "seeded")))
FILT = [a for a in sys.argv[1:] if not a.startswith("--")]
if FILT:
    seeds = [s for s in seeds if any(s.endswith(f) or s.startswith(f) for f in FILT)]
with concurrent.futures.ThreadPoolExecutor(max_workers=6) as ex:
    results = list(ex.map(run, seeds))
missed = 0
for seed, owner, res in results:
    own = res.get(owner, {})
    det = [p for p, v in res.items() if isinstance(v, dict) and v.get("rc") == 1]
    status = "DETECTED" if own.get("rc") == 1 else ("inconclusive" if own.get("rc") == 2 else "MISSED")
    if status != "DETECTED":
        missed += 1
    print("%-7s owner %s: %-12s rules=%s%s" % (seed, owner, status, own.get("rules"), ("  also: " + ",".join(p for p in det if p != owner)) if ALL else ""))
    mp = os.path.join(VERIF, "seeded", seed, "meta.json")
    meta = json.load(open(mp))
    owner = meta.get("breaks", owner)
    meta["checks"] = {"owner_check": owner, "owner_result": status, "owner_rules": own.get("rules"), "also_detected_by": [p for p in det if p != owner] if ALL else meta.get("checks", {}).get("also_detected_by")}
    json.dump(meta, open(mp, "w"), indent=1)
print("missed/inconclusive:", missed, "of", len(results))
