"""pyfacts.py <repo-copy>: interactive helper: loads facts -> `facts`; usage: python3 -i tools/pyfacts.py DIR"""
import sys
sys.path.insert(0, '/verif/analyses')
import extract, mir, inline, flow, binser
paths = extract.extract(sys.argv[1] if len(sys.argv) > 1 else "/repo", "dev")
facts = mir.Facts(paths["mila"])
