#!/bin/bash
# confirm_seed.sh <dir with mutK.diff demoK.rs> <k> : verify a seeded change in a scratch worktree
# (suite passes with it; demo fails with it and passes without).  Never touches /repo's working tree.
set -u
D=$1; K=$2
WT=/tmp/wt/confirm
if [ ! -d $WT ]; then git -C /repo worktree add -q --detach $WT HEAD; fi
cd $WT && git checkout -q --detach $(git -C /repo rev-parse HEAD) && git checkout -q -- . && rm -rf tests
git apply $D/mut$K.diff || { echo "APPLY-FAILED"; exit 3; }
S=$(cargo test --offline --lib 2>&1 | grep "test result" | head -1)
echo "suite with change: $S"
mkdir -p tests && cp $D/demo$K.rs tests/demo.rs
W=$(cargo test --offline --test demo 2>&1 | grep "test result" | head -1)
echo "demo with change: $W"
git checkout -q -- . 
O=$(cargo test --offline --test demo 2>&1 | grep "test result" | head -1)
echo "demo without change: $O"
rm -rf tests
case "$S" in *"82 passed; 0 failed"*) ;; *) echo "NOT-CONFIRMED: suite"; exit 1;; esac
case "$W" in *"0 failed"*) echo "NOT-CONFIRMED: demo passes with change"; exit 1;; esac
case "$O" in *" 0 failed"*) ;; *) echo "NOT-CONFIRMED: demo fails without change"; exit 1;; esac
echo CONFIRMED
