#!/bin/bash
# scratch.sh <diff> : make a scratch copy of /repo with the diff applied, print its path
d=$(mktemp -d /tmp/scr-XXXX); cp -r /repo/src /repo/Cargo.toml /repo/Cargo.lock $d/; patch -p1 -s -d $d -i "$1" || exit 3; echo $d
