#!/usr/bin/env python3
"""tryref.py <diff> [pids] : run checks (default: all 20) against a behaviour-preserving change on a scratch
copy of /repo; print one line per check whose rc != 0."""
import os, shutil, subprocess, sys, tempfile
from concurrent.futures import ThreadPoolExecutor
diff = sys.argv[1]
pids = sys.argv[2].split(",") if len(sys.argv) > 2 else ["C%02d" % i for i in range(1, 21)]
tmp = tempfile.mkdtemp(prefix="ref-")
try:
    shutil.copytree("/repo/src", tmp + "/src")
    for x in ("Cargo.toml", "Cargo.lock"):
        shutil.copy("/repo/" + x, tmp + "/" + x)
    r = subprocess.run(["patch", "-p1", "-s", "-d", tmp, "-i", diff], stdout=subprocess.PIPE, stderr=subprocess.STDOUT)
    if r.returncode != 0:
        print("patch failed:", r.stdout.decode()[:300]); sys.exit(3)
    # first run extracts (serialised by the cache lock); then the rest in parallel
    def run(pid):
        r = subprocess.run(["/verif/check", pid, "--repo", tmp, "--no-evidence", "--strict"], stdout=subprocess.PIPE, stderr=subprocess.STDOUT)
        return pid, r.returncode, r.stdout.decode()
    res = [run(pids[0])]
    with ThreadPoolExecutor(8) as ex:
        res += list(ex.map(run, pids[1:]))
    bad = [(p, rc, out) for p, rc, out in res if rc != 0]
    print("%s: %s" % (diff, "all silent" if not bad else " ".join("%s=rc%d" % (p, rc) for p, rc, _ in bad)))
    for p, rc, out in bad:
        for l in [l for l in out.splitlines() if not l.startswith("VIOLATION ")][:8]:
            print("    [%s] %s" % (p, l[:400]))
finally:
    shutil.rmtree(tmp, ignore_errors=True)
